// Native ground-fact check of the embedded word list (a finite constant: evaluated exhaustively, not sampled)
#[cfg(test)]
mod verif_native {
    use super::*;

    #[test]
    fn nb_wordlist_ground_facts() {
        let wl = for_language(Language::English);
        let mut cases = 0u64;
        assert_eq!(wl.0.len(), WORD_COUNT, "2048 words");
        for i in 0..WORD_COUNT {
            let w = wl.word(i);
            assert!(!w.is_empty() && w.bytes().all(|b| b.is_ascii_lowercase()), "word {i} {w:?} is lower-case ASCII");
            if i > 0 {
                assert!(wl.word(i - 1) < w, "words strictly sorted at {i}");
            }
            assert_eq!(wl.search(w), Some(i), "search(word({i}))");
            // near misses are not words unless they are in the list (checked against a linear scan)
            for cand in [format!("{w}x"), w[..w.len() - 1].to_string(), w.to_uppercase(), format!(" {w}"), format!("{w} ")] {
                let linear = wl.0.iter().position(|x| *x == cand);
                assert_eq!(wl.search(&cand), linear, "search({cand:?})");
                cases += 1;
            }
            cases += 1;
        }
        assert_eq!(wl.search(""), None);
        assert!(std::panic::catch_unwind(|| for_language(Language::English).word(WORD_COUNT)).is_err(), "word(2048) must panic (documented precondition)");
        println!("VERIF-NATIVE-CASES nb_wordlist_ground_facts {cases}");
    }
}
