// Native bounded stand-ins (NOT proofs) closing the composition the Kani contracts cut: the real word list,
// the real SHA-256, the real whitespace splitting, through the public API.
#[cfg(test)]
mod verif_native {
    use super::*;
    use sha2::{Digest as _, Sha256};

    fn seed() -> u64 {
        std::env::var("VERIF_SEED").ok().and_then(|s| s.parse().ok()).unwrap_or(0)
    }
    struct Rng(u64);
    impl Rng {
        fn next(&mut self) -> u64 {
            // splitmix64
            self.0 = self.0.wrapping_add(0x9e3779b97f4a7c15);
            let mut z = self.0;
            z = (z ^ (z >> 30)).wrapping_mul(0xbf58476d1ce4e5b9);
            z = (z ^ (z >> 27)).wrapping_mul(0x94d049bb133111eb);
            z ^ (z >> 31)
        }
    }
    fn words() -> Vec<&'static str> {
        include_str!("mnemonic/wordlist/english.txt").lines().map(str::trim).filter(|w| !w.is_empty()).collect()
    }

    /// BIP-39 reference encoder written from the standard: entropy -> word indices
    fn reference_indices(entropy: &[u8]) -> Vec<usize> {
        let cs = entropy.len() / 4; // ENT/32 bits
        let hash = Sha256::digest(entropy);
        let mut bits: Vec<u8> = Vec::new();
        for b in entropy {
            for t in (0..8).rev() {
                bits.push((b >> t) & 1);
            }
        }
        for k in 0..cs {
            bits.push((hash[k / 8] >> (7 - k % 8)) & 1);
        }
        assert_eq!(bits.len() % 11, 0);
        bits.chunks(11).map(|c| c.iter().fold(0usize, |a, b| (a << 1) | *b as usize)).collect()
    }

    #[test]
    fn nb_hash_seed_is_sha256() {
        let mut rng = Rng(seed() ^ 0x11);
        let mut cases = 0u64;
        for len in 0..=64usize {
            for _ in 0..8 {
                let seed: Vec<u8> = (0..len).map(|_| rng.next() as u8).collect();
                let mut out = [0x5au8; 40];
                hash_seed(&seed, &mut out);
                assert_eq!(&out[..32], &Sha256::digest(&seed)[..], "hash_seed({seed:02x?}) is not SHA-256");
                assert_eq!(&out[32..], &[0x5a; 8], "hash_seed writes past 32 bytes");
                cases += 1;
            }
        }
        println!("VERIF-NATIVE-CASES nb_hash_seed_is_sha256 {cases}");
    }

    /// bound: for each of the five sizes, all-zero, all-one and 400 pseudo-random entropy values (VERIF_SEED):
    /// print == reference words; parse(print) == entropy; reported length; for 40 of them all 2048 candidates for
    /// the last word: accepted iff it is the reference checksum word
    #[test]
    fn nb_entropy_roundtrip_and_checksum() {
        let w = words();
        let mut rng = Rng(seed() ^ 0x22);
        let mut cases = 0u64;
        for ent in [16usize, 20, 24, 28, 32] {
            let n = ent * 3 / 4;
            for round in 0..402 {
                let entropy: Vec<u8> = match round {
                    0 => vec![0; ent],
                    1 => vec![0xff; ent],
                    _ => (0..ent).map(|_| rng.next() as u8).collect(),
                };
                let idx = reference_indices(&entropy);
                assert_eq!(idx.len(), n);
                let phrase = idx.iter().map(|i| w[*i]).collect::<Vec<_>>().join(" ");
                let m = Mnemonic::from_phrase(&phrase).unwrap_or_else(|e| panic!("valid phrase {phrase:?} rejected: {e}"));
                assert_eq!(m.as_bytes(), &entropy[..], "entropy of {phrase:?}");
                assert_eq!(m.mnemonic_length(), n, "reported length of {phrase:?}");
                assert_eq!(m.to_phrase(), phrase, "printed form of {phrase:?}");
                assert_eq!(m.to_string(), phrase, "Display of {phrase:?}");
                cases += 1;
                if round < 8 {
                    // every candidate for the checksum-bearing last word
                    let head = idx[..n - 1].iter().map(|i| w[*i]).collect::<Vec<_>>().join(" ");
                    let cs = n / 3;
                    for (c, cand) in w.iter().enumerate() {
                        let p = format!("{head} {cand}");
                        // candidate's entropy bits are its high 11-cs bits; it is valid iff its low cs bits equal the
                        // checksum of the entropy it encodes
                        let mut idx2 = idx.clone();
                        idx2[n - 1] = c;
                        let mut bits: Vec<u8> = Vec::new();
                        for i in &idx2 {
                            for t in (0..11).rev() {
                                bits.push(((i >> t) & 1) as u8);
                            }
                        }
                        let e2: Vec<u8> = bits[..ent * 8].chunks(8).map(|c| c.iter().fold(0u8, |a, b| (a << 1) | b)).collect();
                        let valid = reference_indices(&e2)[n - 1] & ((1 << cs) - 1) == c & ((1 << cs) - 1);
                        let got = Mnemonic::from_phrase(&p);
                        assert_eq!(got.is_ok(), valid, "last word candidate {cand:?} after {head:?}");
                        if let Ok(m) = got {
                            assert_eq!(m.as_bytes(), &e2[..]);
                        }
                        cases += 1;
                    }
                }
            }
        }
        println!("VERIF-NATIVE-CASES nb_entropy_roundtrip_and_checksum {cases}");
    }

    /// bound: word counts 0..=40 built from valid words (32 random phrases each + all-"abandon"), and one unknown /
    /// capitalised / truncated word at each position of a valid 12- and 24-word phrase: never a panic; accepted only
    /// with a supported count, all words known and the reference checksum
    #[test]
    fn nb_rejections_never_panic() {
        let w = words();
        let mut rng = Rng(seed() ^ 0x33);
        let mut cases = 0u64;
        for n in 0..=40usize {
            for round in 0..33 {
                let idx: Vec<usize> = (0..n).map(|_| if round == 0 { 0 } else { (rng.next() % 2048) as usize }).collect();
                let phrase = idx.iter().map(|i| w[*i]).collect::<Vec<_>>().join(" ");
                let r = std::panic::catch_unwind(|| Mnemonic::from_phrase(&phrase).map(|m| m.as_bytes().to_vec()).ok());
                let r = r.unwrap_or_else(|_| panic!("from_phrase panicked on {n} words: {phrase:?}"));
                let supported = matches!(n, 12 | 15 | 18 | 21 | 24);
                let expect = if supported {
                    let ent = n * 4 / 3;
                    let mut bits: Vec<u8> = Vec::new();
                    for i in &idx {
                        for t in (0..11).rev() {
                            bits.push(((i >> t) & 1) as u8);
                        }
                    }
                    let e: Vec<u8> = bits[..ent * 8].chunks(8).map(|c| c.iter().fold(0u8, |a, b| (a << 1) | b)).collect();
                    if reference_indices(&e) == idx { Some(e) } else { None }
                } else {
                    None
                };
                assert_eq!(r, expect, "{n} words: {phrase:?}");
                cases += 1;
            }
        }
        for ent in [16usize, 32] {
            let entropy: Vec<u8> = (0..ent).map(|_| rng.next() as u8).collect();
            let idx = reference_indices(&entropy);
            for pos in 0..idx.len() {
                for bad in ["abandonx", "Abandon", "aband", "zzzz", "", "ábandon", "abandon,", "0"] {
                    let mut ws: Vec<&str> = idx.iter().map(|i| w[*i]).collect();
                    ws[pos] = bad;
                    let phrase = ws.join(" ");
                    let r = std::panic::catch_unwind(|| Mnemonic::from_phrase(&phrase).is_ok());
                    let ok = r.unwrap_or_else(|_| panic!("from_phrase panicked on {phrase:?}"));
                    // the empty replacement just removes a word: 11 / 23 words
                    assert!(!ok, "phrase with bad word {bad:?} at {pos} accepted: {phrase:?}");
                    cases += 1;
                }
            }
        }
        println!("VERIF-NATIVE-CASES nb_rejections_never_panic {cases}");
    }

    /// bound: whitespace layouts of one valid phrase: all separators drawn from {" ", "  ", "\t", "\n", "\r\n",
    /// " \t ", U+00A0, U+2003, U+3000} (one layout per separator kind plus 200 random mixes), leading / trailing
    /// whitespace: same mnemonic, canonical single-space print
    #[test]
    fn nb_whitespace_layout() {
        let w = words();
        let mut rng = Rng(seed() ^ 0x44);
        let entropy: Vec<u8> = (0..16).map(|_| rng.next() as u8).collect();
        let idx = reference_indices(&entropy);
        let ws: Vec<&str> = idx.iter().map(|i| w[*i]).collect();
        let canon = ws.join(" ");
        let seps = [" ", "  ", "\t", "\n", "\r\n", " \t ", "\u{a0}", "\u{2003}", "\u{3000}", "\u{b}", "\u{c}", "\u{85}"];
        let mut cases = 0u64;
        for round in 0..(seps.len() + 200) {
            let mut p = String::new();
            if round % 3 == 1 {
                p.push_str(seps[round % seps.len()]);
            }
            for (i, word) in ws.iter().enumerate() {
                if i > 0 {
                    p.push_str(if round < seps.len() { seps[round] } else { seps[(rng.next() % seps.len() as u64) as usize] });
                }
                p.push_str(word);
            }
            if round % 3 == 2 {
                p.push_str(seps[round % seps.len()]);
            }
            let m = Mnemonic::from_phrase(&p).unwrap_or_else(|e| panic!("layout {p:?} rejected: {e}"));
            assert_eq!(m.as_bytes(), &entropy[..], "layout {p:?}");
            assert_eq!(m.to_phrase(), canon, "layout {p:?}");
            cases += 1;
        }
        // Language::split against "maximal runs of non-whitespace characters" on all strings of length <= 5 over a small alphabet
        let alphabet = ['a', 'b', ' ', '\t', '\n', '\u{a0}', '\u{3000}'];
        fn rec(alphabet: &[char], buf: &mut String, depth: usize, cases: &mut u64) {
            let (_, got) = Language::split(buf).unwrap();
            let mut want: Vec<String> = vec![];
            let mut cur = String::new();
            for c in buf.chars() {
                if c.is_whitespace() {
                    if !cur.is_empty() {
                        want.push(std::mem::take(&mut cur));
                    }
                } else {
                    cur.push(c);
                }
            }
            if !cur.is_empty() {
                want.push(cur);
            }
            assert_eq!(got, want.iter().map(String::as_str).collect::<Vec<_>>(), "split({buf:?})");
            *cases += 1;
            if depth == 0 {
                return;
            }
            for &c in alphabet {
                buf.push(c);
                rec(alphabet, buf, depth - 1, cases);
                buf.pop();
            }
        }
        rec(&alphabet, &mut String::new(), 5, &mut cases);
        println!("VERIF-NATIVE-CASES nb_whitespace_layout {cases}");
    }

    /// Mnemonic::random with the real OS source: bounded to 64 generations per supported length; unsupported 0..=40 refused
    #[test]
    fn nb_random_parses_back() {
        let mut cases = 0u64;
        for n in 0..=40usize {
            let supported = matches!(n, 12 | 15 | 18 | 21 | 24);
            let mut seen: Vec<Vec<u8>> = vec![];
            for _ in 0..(if supported { 64 } else { 1 }) {
                let r = std::panic::catch_unwind(|| Mnemonic::random(Language::English, n).ok().map(|m| (m.to_phrase(), m.as_bytes().to_vec())));
                let r = r.unwrap_or_else(|_| panic!("random({n}) panicked"));
                match r {
                    None => assert!(!supported, "random({n}) failed with a working entropy source"),
                    Some((phrase, bytes)) => {
                        assert!(supported, "random({n}) generated a phrase for an unsupported length: {phrase:?}");
                        assert_eq!(phrase.split(' ').count(), n, "random({n}) word count: {phrase:?}");
                        assert_eq!(bytes.len(), n * 4 / 3);
                        let back = Mnemonic::from_phrase(&phrase).unwrap_or_else(|e| panic!("generated phrase {phrase:?} does not parse back: {e}"));
                        assert_eq!(back.as_bytes(), &bytes[..]);
                        seen.push(bytes);
                    }
                }
                cases += 1;
            }
            // no entropy byte position is constant over 64 generations (false alarm probability 256^-63 per position)
            if supported {
                for pos in 0..n * 4 / 3 {
                    assert!(seen.iter().any(|b| b[pos] != seen[0][pos]), "random({n}): entropy byte {pos} is {:#04x} in all 64 generations", seen[0][pos]);
                }
            }
        }
        println!("VERIF-NATIVE-CASES nb_random_parses_back {cases}");
    }
}
