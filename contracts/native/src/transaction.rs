// Native bounded stand-ins (NOT proofs) for C06 / C13 / C11: a reference transaction encoder written from the
// Yellow Paper / EIP-155 / EIP-2930 / EIP-1559, and the JSON spelling rules, compared with the real code.
#[cfg(test)]
mod verif_native {
    use super::*;
    use crate::account::Signature;
    use ethnum::U256;
    use serde_json::{json, Map, Value};

    // ------------------------------------------------------------------ reference RLP (Yellow Paper appendix B)
    fn be_min(mut n: u128) -> Vec<u8> {
        let mut v = vec![];
        while n > 0 {
            v.push(n as u8);
            n >>= 8;
        }
        v.reverse();
        v
    }
    fn hdr(n: usize, off: u8) -> Vec<u8> {
        if n < 56 {
            vec![off + n as u8]
        } else {
            let l = be_min(n as u128);
            let mut v = vec![off + 55 + l.len() as u8];
            v.extend(l);
            v
        }
    }
    fn rstr(b: &[u8]) -> Vec<u8> {
        if b.len() == 1 && b[0] < 0x80 {
            b.to_vec()
        } else {
            let mut v = hdr(b.len(), 0x80);
            v.extend_from_slice(b);
            v
        }
    }
    fn ruint(v: U256) -> Vec<u8> {
        let b = v.to_be_bytes();
        let first = b.iter().position(|x| *x != 0).unwrap_or(32);
        rstr(&b[first..])
    }
    fn rlist(items: &[Vec<u8>]) -> Vec<u8> {
        let body: Vec<u8> = items.concat();
        let mut v = hdr(body.len(), 0xc0);
        v.extend(body);
        v
    }
    /// strict decoder: rejects non-minimal length prefixes, wrapped single bytes < 0x80; returns (item, rest)
    #[derive(Debug, PartialEq, Clone)]
    enum Item {
        Str(Vec<u8>),
        List(Vec<Item>),
    }
    fn dec(b: &[u8]) -> Option<(Item, &[u8])> {
        let t = *b.first()?;
        let long = |off: u8, b: &[u8]| -> Option<(usize, usize)> {
            let ll = (t - off - 55) as usize;
            let lb = b.get(1..1 + ll)?;
            if lb.first() == Some(&0) || ll > 8 { return None; }
            let n = lb.iter().fold(0usize, |a, x| (a << 8) | *x as usize);
            if n < 56 { return None; }
            Some((1 + ll, n))
        };
        let (is_list, start, n) = match t {
            0x00..=0x7f => return Some((Item::Str(vec![t]), &b[1..])),
            0x80..=0xb7 => (false, 1, (t - 0x80) as usize),
            0xb8..=0xbf => { let (s, n) = long(0x80, b)?; (false, s, n) }
            0xc0..=0xf7 => (true, 1, (t - 0xc0) as usize),
            _ => { let (s, n) = long(0xc0, b)?; (true, s, n) }
        };
        let payload = b.get(start..start + n)?;
        let rest = &b[start + n..];
        if !is_list {
            if n == 1 && payload[0] < 0x80 { return None; }
            return Some((Item::Str(payload.to_vec()), rest));
        }
        let mut items = vec![];
        let mut p = payload;
        while !p.is_empty() {
            let (i, r) = dec(p)?;
            items.push(i);
            p = r;
        }
        Some((Item::List(items), rest))
    }
    fn dec_uint(i: &Item) -> Option<U256> {
        match i {
            Item::Str(b) if b.len() <= 32 && b.first() != Some(&0) => {
                let mut w = [0u8; 32];
                w[32 - b.len()..].copy_from_slice(b);
                Some(U256::from_be_bytes(w))
            }
            _ => None,
        }
    }

    // ------------------------------------------------------------------ transaction model
    #[derive(Clone, Debug)]
    struct Tx {
        kind: u8, // 0 legacy, 1 eip2930, 2 eip1559
        chain_id: Option<U256>,
        nonce: U256,
        gas_price: U256,
        max_priority: U256,
        max_fee: U256,
        gas: U256,
        to: Option<[u8; 20]>,
        value: U256,
        data: Vec<u8>,
        access: Vec<([u8; 20], Vec<[u8; 32]>)>,
    }
    fn hexs(b: &[u8]) -> String {
        format!("0x{}", b.iter().map(|x| format!("{x:02x}")).collect::<String>())
    }
    fn tx_json(t: &Tx, spell: &dyn Fn(U256) -> Value) -> Value {
        let mut m = Map::new();
        if let Some(c) = t.chain_id { m.insert("chainId".into(), spell(c)); }
        m.insert("nonce".into(), spell(t.nonce));
        if t.kind == 2 {
            m.insert("maxPriorityFeePerGas".into(), spell(t.max_priority));
            m.insert("maxFeePerGas".into(), spell(t.max_fee));
        } else {
            m.insert("gasPrice".into(), spell(t.gas_price));
        }
        m.insert("gas".into(), spell(t.gas));
        match t.to {
            Some(a) => { m.insert("to".into(), json!(hexs(&a))); }
            None => { if t.nonce.as_u8() % 2 == 0 { m.insert("to".into(), Value::Null); } }
        }
        m.insert("value".into(), spell(t.value));
        m.insert("data".into(), json!(hexs(&t.data)));
        if t.kind >= 1 {
            m.insert("accessList".into(), Value::Array(t.access.iter().map(|(a, ks)| json!([hexs(a), ks.iter().map(|k| hexs(k)).collect::<Vec<_>>()])).collect()));
        }
        Value::Object(m)
    }
    fn reference_encode(t: &Tx, sig: Option<(U256, U256, u8)>) -> Vec<u8> {
        let to = rstr(&t.to.map(|a| a.to_vec()).unwrap_or_default());
        let access = rlist(&t.access.iter().map(|(a, ks)| rlist(&[rstr(a), rlist(&ks.iter().map(|k| rstr(k)).collect::<Vec<_>>())])).collect::<Vec<_>>());
        let mut f = match t.kind {
            0 => vec![ruint(t.nonce), ruint(t.gas_price), ruint(t.gas), to, ruint(t.value), rstr(&t.data)],
            1 => vec![ruint(t.chain_id.unwrap()), ruint(t.nonce), ruint(t.gas_price), ruint(t.gas), to, ruint(t.value), rstr(&t.data), access],
            _ => vec![ruint(t.chain_id.unwrap()), ruint(t.nonce), ruint(t.max_priority), ruint(t.max_fee), ruint(t.gas), to, ruint(t.value), rstr(&t.data), access],
        };
        match (t.kind, sig) {
            (0, Some((r, s, p))) => {
                let v = match t.chain_id { Some(c) => U256::new(35 + p as u128) + c + c, None => U256::new(27 + p as u128) };
                f.extend([ruint(v), ruint(r), ruint(s)]);
            }
            (0, None) => { if let Some(c) = t.chain_id { f.extend([ruint(c), ruint(U256::ZERO), ruint(U256::ZERO)]); } }
            (_, Some((r, s, p))) => f.extend([ruint(U256::new(p as u128)), ruint(r), ruint(s)]),
            (_, None) => {}
        }
        let body = rlist(&f);
        match t.kind { 0 => body, k => [vec![k], body].concat() }
    }
    struct Rng(u64);
    impl Rng {
        fn next(&mut self) -> u64 {
            self.0 = self.0.wrapping_add(0x9e3779b97f4a7c15);
            let mut z = self.0;
            z = (z ^ (z >> 30)).wrapping_mul(0xbf58476d1ce4e5b9);
            z = (z ^ (z >> 27)).wrapping_mul(0x94d049bb133111eb);
            z ^ (z >> 31)
        }
        /// a value of a random byte width 0..=32 (so that every width and the boundaries occur)
        fn u256(&mut self) -> U256 {
            let w = (self.next() % 34) as u32;
            if w == 33 { return U256::MAX; }
            if w == 0 { return U256::ZERO; }
            let v = U256::from_words(((self.next() as u128) << 64) | self.next() as u128, ((self.next() as u128) << 64) | self.next() as u128);
            let v = v >> (256 - 8 * w);
            v | (U256::ONE << (8 * w - 1))
        }
    }
    fn seed() -> u64 { std::env::var("VERIF_SEED").ok().and_then(|s| s.parse().ok()).unwrap_or(0) }
    fn gen_tx(rng: &mut Rng, kind: u8, data_len: usize) -> Tx {
        let max_chain = (U256::MAX - U256::new(36)) >> 1;
        let mut chain = rng.u256();
        if kind == 0 && chain > max_chain { chain = max_chain - U256::new((rng.next() % 5) as u128); }
        Tx {
            kind,
            chain_id: if kind == 0 && rng.next() % 4 == 0 { None } else { Some(chain) },
            nonce: rng.u256(), gas_price: rng.u256(), max_priority: rng.u256(), max_fee: rng.u256(), gas: rng.u256(),
            to: if rng.next() % 3 == 0 { None } else { Some(std::array::from_fn(|_| rng.next() as u8)) },
            value: rng.u256(),
            data: (0..data_len).map(|i| if data_len == 1 { [0x00, 0x7f, 0x80, 0xff][(rng.next() % 4) as usize] } else { (rng.next() as u8).wrapping_add(i as u8) }).collect(),
            access: (0..(rng.next() % 4)).map(|_| (std::array::from_fn(|_| rng.next() as u8), (0..(rng.next() % 4)).map(|_| std::array::from_fn(|_| rng.next() as u8)).collect())).collect(),
        }
    }
    const N: &str = "fffffffffffffffffffffffffffffffebaaedce6af48a03bbfd25e8cd0364141";

    /// bound: 3 kinds x calldata lengths {0..=60, 255, 256, 257, 1100, 65535, 65536, 65537} x 3 random field draws (each
    /// field a random byte width 0..=32 incl. 0 and 2^256-1), unsigned and signed with 4 signatures (both parities, r/s at
    /// 1, n-1 and random): bytes == reference encoder; signing digest == keccak(reference unsigned payload); a strict
    /// decoder accepts the output, consumes it completely and returns every field
    #[test]
    fn nb_tx_encoding_vs_reference() {
        let mut rng = Rng(seed() ^ 0x66);
        let mut lens: Vec<usize> = (0..=60).collect();
        lens.extend([255, 256, 257, 1100, 65535, 65536, 65537]);
        let n_minus_1 = U256::from_str_radix(N, 16).unwrap() - U256::ONE;
        let mut cases = 0u64;
        for kind in 0..3u8 {
            for &l in &lens {
                for _ in 0..3 {
                    let t = gen_tx(&mut rng, kind, l);
                    let doc = tx_json(&t, &|v| json!(v.to_string()));
                    let tx: Transaction = serde_json::from_value(doc.clone()).unwrap_or_else(|e| panic!("valid transaction rejected: {e}: {doc}"));
                    let kind_ok = matches!((&tx, kind), (Transaction::Legacy(_), 0) | (Transaction::Eip2930(_), 1) | (Transaction::Eip1559(_), 2));
                    assert!(kind_ok, "wrong transaction kind for {doc}");
                    let unsigned = reference_encode(&t, None);
                    assert_eq!(tx.signing_message(), Digest::of(&unsigned), "signing digest of {doc}");
                    for (r, s, p) in [(U256::ONE, U256::ONE, 0u8), (n_minus_1, n_minus_1, 1), (rng.u256().max(U256::ONE).min(n_minus_1), rng.u256().max(U256::ONE).min(n_minus_1), (rng.next() % 2) as u8)] {
                        let got = tx.encode(Signature::from_parts(r, s, p));
                        let want = reference_encode(&t, Some((r, s, p)));
                        assert_eq!(got, want, "signed encoding of {doc} with r={r:#x} s={s:#x} parity={p}");
                        // strict decode
                        let body = if kind == 0 { &got[..] } else { assert_eq!(got[0], kind); &got[1..] };
                        let (item, rest) = dec(body).unwrap_or_else(|| panic!("strict decoder rejects {}", hexs(&got)));
                        assert!(rest.is_empty(), "trailing bytes after the transaction");
                        let Item::List(fs) = item else { panic!("not a list") };
                        let expect_len = match kind { 0 => 9, 1 => 11, _ => 12 };
                        assert_eq!(fs.len(), expect_len, "field count");
                        let o = if kind == 0 { 0 } else { 1 };
                        if kind > 0 { assert_eq!(dec_uint(&fs[0]), t.chain_id, "chain id is the first signed field"); }
                        assert_eq!(dec_uint(&fs[o]), Some(t.nonce), "nonce");
                        let (gas_i, to_i) = if kind == 2 { (o + 3, o + 4) } else { (o + 2, o + 3) };
                        assert_eq!(dec_uint(&fs[gas_i]), Some(t.gas), "gas");
                        assert_eq!(fs[to_i], Item::Str(t.to.map(|a| a.to_vec()).unwrap_or_default()), "to");
                        assert_eq!(dec_uint(&fs[to_i + 1]), Some(t.value), "value");
                        assert_eq!(fs[to_i + 2], Item::Str(t.data.clone()), "data");
                        assert_eq!(dec_uint(&fs[expect_len - 2]), Some(r), "r");
                        assert_eq!(dec_uint(&fs[expect_len - 1]), Some(s), "s");
                        let v = dec_uint(&fs[expect_len - 3]).unwrap();
                        if kind == 0 {
                            match t.chain_id { Some(c) => assert_eq!(v - U256::new(35 + p as u128), c + c, "v = 35 + 2c + p"), None => assert_eq!(v, U256::new(27 + p as u128)) }
                        } else {
                            assert_eq!(v, U256::new(p as u128), "yParity");
                        }
                        cases += 1;
                    }
                    // unsigned legacy payload ends in (c, 0, 0) iff a chain id is present
                    if kind == 0 {
                        let (Item::List(fs), _) = dec(&unsigned).unwrap() else { panic!() };
                        assert_eq!(fs.len(), if t.chain_id.is_some() { 9 } else { 6 }, "EIP-155 unsigned tail");
                        if let Some(c) = t.chain_id {
                            assert_eq!((dec_uint(&fs[6]), &fs[7], &fs[8]), (Some(c), &Item::Str(vec![]), &Item::Str(vec![])), "unsigned tail (c, 0, 0)");
                        }
                    }
                }
            }
        }
        // structured access lists that random draws never produce: repeated keys (adjacent and not), repeated addresses,
        // empty key lists, all-zero / all-0xff keys and addresses
        let (a, b) = ([0x11u8; 20], [0u8; 20]);
        let (k, l, z, f) = ([0xaau8; 32], [0xbbu8; 32], [0u8; 32], [0xffu8; 32]);
        let shapes: Vec<Vec<([u8; 20], Vec<[u8; 32]>)>> = vec![
            vec![], vec![(a, vec![])], vec![(a, vec![k])], vec![(a, vec![k, k])], vec![(a, vec![k, k, l])], vec![(a, vec![l, k, k, k])], vec![(a, vec![k, l, k])],
            vec![(a, vec![k]), (a, vec![k])], vec![(a, vec![]), (a, vec![])], vec![(b, vec![z, z]), (a, vec![f, z, f])], vec![(a, vec![z]), (b, vec![]), (a, vec![z, f])],
            vec![(a, vec![k; 8])], vec![(a, vec![k, l]); 5],
            // item counts on both sides of 16 / 17 / 32 / 64 / 256 (a list of many items, distinct keys so that nothing can be dropped unnoticed)
            vec![(a, (0..16u8).map(|i| [i; 32]).collect())], vec![(a, (0..17u8).map(|i| [i; 32]).collect())], vec![(a, (0..40u8).map(|i| [i; 32]).collect())],
            vec![(a, (0..=255u8).map(|i| [i; 32]).collect()), (b, (0..65u8).map(|i| [i ^ 0x55; 32]).collect())],
            (0..17u8).map(|i| ([i; 20], vec![[i; 32]])).collect(), (0..33u8).map(|i| ([i; 20], vec![])).collect(), (0..70u8).map(|i| ([i; 20], vec![[i; 32]; (i % 3) as usize])).collect(),
        ];
        for kind in 1..3u8 {
            for shape in &shapes {
                let mut t = gen_tx(&mut rng, kind, 3);
                t.access = shape.clone();
                let doc = tx_json(&t, &|v| json!(format!("{v:#x}")));
                let tx: Transaction = serde_json::from_value(doc.clone()).unwrap_or_else(|e| panic!("valid transaction rejected: {e}: {doc}"));
                assert_eq!(tx.signing_message(), Digest::of(reference_encode(&t, None)), "signing digest of {doc}");
                assert_eq!(tx.encode(Signature::from_parts(U256::ONE, n_minus_1, 1)), reference_encode(&t, Some((U256::ONE, n_minus_1, 1))), "signed encoding of {doc}");
                cases += 1;
            }
        }
        println!("VERIF-NATIVE-CASES nb_tx_encoding_vs_reference {cases} nontrivial {cases}");
    }

    /// bound: the 8 presence combinations of maxPriorityFeePerGas / maxFeePerGas / accessList
    #[test]
    fn nb_tx_kind_dispatch() {
        let mut cases = 0u64;
        for mask in 0..8u8 {
            let mut m = json!({"chainId": 1, "nonce": 0, "gas": 1, "value": 0, "data": "0x", "gasPrice": 1}).as_object().unwrap().clone();
            if mask & 1 != 0 { m.insert("maxPriorityFeePerGas".into(), json!(1)); }
            if mask & 2 != 0 { m.insert("maxFeePerGas".into(), json!(1)); }
            if mask & 4 != 0 { m.insert("accessList".into(), json!([])); }
            let want = if mask & 3 != 0 { 2 } else if mask & 4 != 0 { 1 } else { 0 };
            // a 1559 document needs both fee fields and no gasPrice requirement; unknown extra keys are ignored by serde
            let r = serde_json::from_value::<Transaction>(Value::Object(m.clone()));
            match (want, mask & 3) {
                (2, 3) | (1, _) | (0, _) => {
                    let tx = r.unwrap_or_else(|e| panic!("mask {mask}: {e}"));
                    let got = match tx { Transaction::Legacy(_) => 0, Transaction::Eip2930(_) => 1, Transaction::Eip1559(_) => 2 };
                    assert_eq!(got, want, "kind for key presence mask {mask}");
                }
                _ => assert!(r.is_err(), "a fee-market transaction with only one fee field must be refused (mask {mask}), not treated as another kind"),
            }
            cases += 1;
        }
        println!("VERIF-NATIVE-CASES nb_tx_kind_dispatch {cases}");
    }

    /// bound: 14 integers (0, 1, 2^53-1, 2^53, 2^64-1, 2^64, 2^128, 2^255-19, 2^255, 2^256-1, ...) in every spelling that can
    /// denote them (JSON integer, integral float, decimal string, lower / upper / zero-padded hex) on every numeric field of
    /// the three kinds: same value and identical encoding; 40 malformed spellings refused; byte / address / storage-key rules
    #[test]
    fn nb_tx_json_number_spellings() {
        let ints: Vec<U256> = vec![
            U256::ZERO, U256::ONE, U256::new(127), U256::new(128), U256::new((1 << 53) - 1), U256::new(1 << 53), U256::new(u64::MAX as u128), U256::new(1 << 64),
            U256::new(u128::MAX), U256::ONE << 128, (U256::ONE << 255) - U256::new(19), U256::ONE << 255, U256::MAX - U256::ONE, U256::MAX,
        ];
        let base = |kind: u8| -> Map<String, Value> {
            let mut m = json!({"chainId": 1, "nonce": 0, "gas": 1, "value": 0, "data": "0x"}).as_object().unwrap().clone();
            match kind { 0 => { m.insert("gasPrice".into(), json!(1)); } 1 => { m.insert("gasPrice".into(), json!(1)); m.insert("accessList".into(), json!([])); } _ => { m.insert("maxPriorityFeePerGas".into(), json!(1)); m.insert("maxFeePerGas".into(), json!(1)); } }
            m
        };
        let fields = |kind: u8| -> Vec<&'static str> { match kind { 0 => vec!["chainId", "nonce", "gasPrice", "gas", "value"], 1 => vec!["chainId", "nonce", "gasPrice", "gas", "value"], _ => vec!["chainId", "nonce", "maxPriorityFeePerGas", "maxFeePerGas", "gas", "value"] } };
        let mut cases = 0u64;
        for kind in 0..3u8 {
            for f in fields(kind) {
                for v in &ints {
                    let mut spellings: Vec<Value> = vec![json!(v.to_string()), json!(format!("{v:#x}")), json!(format!("{v:#X}").replacen("0X", "0x", 1)), json!(format!("0x{:0>64x}", v))];
                    if *v <= U256::new(u64::MAX as u128) { spellings.push(json!(v.as_u64())); }
                    if *v < U256::new(1 << 53) { spellings.push(json!(v.as_u64() as f64)); }
                    let too_big_for_legacy_chain = kind == 0 && f == "chainId" && *v > (U256::MAX - U256::new(36)) >> 1;
                    let mut encodings = vec![];
                    for s in &spellings {
                        let mut m = base(kind);
                        m.insert(f.to_string(), s.clone());
                        let r = serde_json::from_value::<Transaction>(Value::Object(m));
                        if too_big_for_legacy_chain {
                            assert!(r.is_err(), "legacy chain id {v:#x} cannot be represented by EIP-155 and must be refused ({s})");
                        } else {
                            let tx = r.unwrap_or_else(|e| panic!("{f} = {s} rejected: {e}"));
                            let got = match &tx {
                                Transaction::Legacy(t) => match f { "chainId" => t.chain_id.unwrap(), "nonce" => t.nonce, "gasPrice" => t.gas_price, "gas" => t.gas, _ => t.value },
                                Transaction::Eip2930(t) => match f { "chainId" => t.chain_id, "nonce" => t.nonce, "gasPrice" => t.gas_price, "gas" => t.gas, _ => t.value },
                                Transaction::Eip1559(t) => match f { "chainId" => t.chain_id, "nonce" => t.nonce, "maxPriorityFeePerGas" => t.max_priority_fee_per_gas, "maxFeePerGas" => t.max_fee_per_gas, "gas" => t.gas, _ => t.value },
                            };
                            assert_eq!(got, *v, "{f} = {s}");
                            encodings.push(tx.signing_message());
                        }
                        cases += 1;
                    }
                    assert!(encodings.windows(2).all(|w| w[0] == w[1]), "equal integers must encode identically ({f} = {v})");
                }
                for bad in [json!(-1), json!(-1.0), json!(i64::MIN), json!(1.5), json!(0.1), json!(1e100), json!(9007199254740992.0), json!(1.8446744073709552e19), json!("-1"), json!("-0x1"), json!(""), json!("0x"), json!(" 1"), json!("1 "), json!("0x 1"),
                            json!("abc"), json!("0xg"), json!("1.0"), json!("1.5"), json!("1e3"), json!("115792089237316195423570985008687907853269984665640564039457584007913129639936"),
                            json!("0x10000000000000000000000000000000000000000000000000000000000000000"), json!(true), json!([]), json!({}), json!([1]), json!("0x-1"), json!("--1"), json!("1,000"), json!("١")] {
                    let mut m = base(kind);
                    m.insert(f.to_string(), bad.clone());
                    assert!(serde_json::from_value::<Transaction>(Value::Object(m)).is_err(), "{f} = {bad} accepted");
                    cases += 1;
                }
                if f != "chainId" || kind != 0 {
                    let mut m = base(kind);
                    m.insert(f.to_string(), Value::Null);
                    assert!(serde_json::from_value::<Transaction>(Value::Object(m)).is_err(), "{f} = null accepted");
                    let mut m = base(kind);
                    m.remove(f);
                    assert!(serde_json::from_value::<Transaction>(Value::Object(m)).is_err(), "missing {f} accepted");
                    cases += 2;
                }
            }
            for (f, bad) in [("data", json!("00")), ("data", json!("0x0")), ("data", json!("0xzz")), ("data", json!("0X00")), ("data", json!(0)), ("data", json!(null)), ("data", json!(" 0x00")), ("data", json!("0x0x")), ("data", json!("0x0x00")), ("data", json!("0x0X00")), ("data", json!("0xx")), ("data", json!("0x 00")), ("data", json!("0x00 ")), ("data", json!("0x0g")),
                             ("to", json!(format!("0x{}", "00".repeat(19)))), ("to", json!(format!("0x{}", "00".repeat(21)))), ("to", json!("0x")), ("to", json!(0)), ("to", json!(format!("0x{}", "zz".repeat(20))))] {
                let mut m = base(kind);
                m.insert(f.to_string(), bad.clone());
                assert!(serde_json::from_value::<Transaction>(Value::Object(m)).is_err(), "{f} = {bad} accepted");
                cases += 1;
            }
            if kind >= 1 {
                let a = format!("0x{}", "11".repeat(20));
                for bad in [json!([[a, [format!("0x{}", "00".repeat(31))]]]), json!([[a, [format!("0x{}", "00".repeat(33))]]]), json!([[a, ["00".repeat(32)]]]), json!([[a, [format!("0x0x{}", "00".repeat(31))]]]), json!([[a, [format!("0x0x{}", "00".repeat(32))]]]), json!([[format!("0x0x{}", "11".repeat(19)), []]]), json!([[format!("0x{}", "11".repeat(19)), []]]), json!([[a]]), json!([a]), json!({})] {
                    let mut m = base(kind);
                    m.insert("accessList".into(), bad.clone());
                    assert!(serde_json::from_value::<Transaction>(Value::Object(m)).is_err(), "accessList = {bad} accepted");
                    cases += 1;
                }
            }
        }
        println!("VERIF-NATIVE-CASES nb_tx_json_number_spellings {cases}");
    }
}
