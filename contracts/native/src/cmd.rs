// Native bounded stand-in for C19: permissive_hex (chars().filter().collect + strip_prefix + hex::decode) is outside
// CBMC's reach (Unicode whitespace tables, String collection); checked here by exhaustive enumeration with stated bounds.
#[cfg(test)]
mod verif_native {
    use super::*;

    fn hexval(c: char) -> Option<u8> {
        c.to_digit(16).map(|d| d as u8).filter(|_| c.is_ascii())
    }
    /// reference decoder written from the property statement
    fn spec(s: &str) -> Option<Vec<u8>> {
        let d: Vec<char> = s.chars().filter(|c| !c.is_whitespace()).collect();
        let d = if d.len() >= 2 && d[0] == '0' && d[1] == 'x' { &d[2..] } else { &d[..] };
        if d.len() % 2 != 0 {
            return None;
        }
        d.chunks(2).map(|p| Some((hexval(p[0])? << 4) | hexval(p[1])?)).collect()
    }
    fn check(s: &str) -> bool {
        let got = std::panic::catch_unwind(|| permissive_hex(s).ok().map(|b| b.to_vec()));
        let got = got.unwrap_or_else(|_| panic!("permissive_hex({s:?}) panicked"));
        assert_eq!(got, spec(s), "permissive_hex({s:?})");
        got.is_some()
    }

    /// bound: all strings of length <= 6 over {0, 1, 9, a, f, A, F, g, x, X, space, tab, newline, U+00A0, U+3000, -}
    /// (about 1.8e7 strings)
    #[test]
    fn nb_permissive_hex_enumerated() {
        let alphabet = ['0', '1', '9', 'a', 'f', 'A', 'F', 'g', 'x', 'X', ' ', '\t', '\n', '\u{a0}', '\u{3000}', '-'];
        let mut cases = 0u64;
        let mut accepted = 0u64;
        fn rec(alphabet: &[char], buf: &mut String, depth: usize, cases: &mut u64, accepted: &mut u64) {
            if check(buf) {
                *accepted += 1;
                if *accepted % 200_000 == 3 { println!("VERIF-NATIVE-SAMPLE nb_permissive_hex_enumerated accepted {:?}", buf); }
            } else if *cases % 5_000_000 == 11 {
                println!("VERIF-NATIVE-SAMPLE nb_permissive_hex_enumerated refused {:?}", buf);
            }
            *cases += 1;
            if depth == 0 {
                return;
            }
            for &c in alphabet {
                buf.push(c);
                rec(alphabet, buf, depth - 1, cases, accepted);
                buf.pop();
            }
        }
        rec(&alphabet, &mut String::new(), 6, &mut cases, &mut accepted);
        println!("VERIF-NATIVE-CASES nb_permissive_hex_enumerated {cases} nontrivial {accepted}");
    }

    /// bound: byte strings of every length 0..=4096 (byte ramp covering all 256 values) and all 65536 two-byte strings:
    /// decode(encode(b)) == b, encode is 0x + two lower-case digits per byte; five layouts of each (upper case, no
    /// prefix, spaces between bytes, newline every 32 digits, leading/trailing whitespace) decode to the same bytes
    #[test]
    fn nb_hex_roundtrip_and_layouts() {
        let mut cases = 0u64;
        let mut inputs: Vec<Vec<u8>> = (0..=4096usize).map(|l| (0..l).map(|i| (i * 131 + l) as u8).collect()).collect();
        for a in 0..=255u8 {
            for b in 0..=255u8 {
                inputs.push(vec![a, b]);
            }
        }
        for bytes in inputs {
            let enc = format!("0x{}", ::hex::encode(&bytes));
            assert!(enc.starts_with("0x") && enc.len() == 2 + 2 * bytes.len(), "encode length");
            assert!(enc[2..].bytes().all(|c| c.is_ascii_digit() || (b'a'..=b'f').contains(&c)), "encode is lower-case hex");
            for (i, b) in bytes.iter().enumerate() {
                assert_eq!(u8::from_str_radix(&enc[2 + 2 * i..4 + 2 * i], 16).unwrap(), *b, "encode digit values");
            }
            let digits = &enc[2..];
            let spaced: String = digits.as_bytes().chunks(2).map(|p| std::str::from_utf8(p).unwrap()).collect::<Vec<_>>().join(" ");
            let wrapped: String = digits.as_bytes().chunks(32).map(|p| std::str::from_utf8(p).unwrap()).collect::<Vec<_>>().join("\n");
            for layout in [enc.clone(), enc.to_uppercase().replacen("0X", "0x", 1), digits.to_string(), format!("0x {spaced}"), format!("0x{wrapped}\n"), format!("  \t{enc}\r\n")] {
                let got = permissive_hex(&layout).unwrap_or_else(|e| panic!("layout {layout:?} rejected: {e}"));
                assert_eq!(&*got, &bytes[..], "layout {layout:?}");
                cases += 1;
            }
            if !bytes.is_empty() {
                // malformed: odd number of digits, foreign character
                assert!(permissive_hex(&enc[..enc.len() - 1]).is_err(), "odd digits accepted");
                assert!(permissive_hex(&format!("{enc}g0")).is_err(), "non-hex character accepted");
                cases += 2;
            }
        }
        println!("VERIF-NATIVE-CASES nb_hex_roundtrip_and_layouts {cases} nontrivial {cases}");
    }
}
