// Native bounded stand-in with PUBLISHED vectors (not values produced by this code): the C16 clause "the key at
// m/44'/60'/0'/0/i" rests on hdk::derive, whose correctness (C03) is not decidable by contracts here; these vectors are
// the only independent oracle available.  A handful of vectors, stated as such.
#[cfg(test)]
mod verif_native {
    use super::*;
    use crate::mnemonic::Mnemonic;

    fn hex32(s: &str) -> [u8; 32] {
        let mut o = [0u8; 32];
        for i in 0..32 {
            o[i] = u8::from_str_radix(&s[2 * i..2 * i + 2], 16).unwrap();
        }
        o
    }

    /// bound: BIP-32 test vector 1 (5 chain links, hardened and normal, index 1000000000) and test vector 2 root link
    #[test]
    fn nb_bip32_published_vectors() {
        let seed: Vec<u8> = (0u8..16).collect();
        for (path, key) in [
            ("m/0'", "edb2e14f9ee77d26dd93b4ecede8d16ed408ce149b6cd80b0715a2d911a0afea"),
            ("m/0'/1", "3c6cb8d0f6a264c91ea8b5030fadaa8e538b020f0a387421a12de9319dc93368"),
            ("m/0'/1/2'", "cbce0d719ecf7431d88e6a89fa1483e02e35092af60c042b1df2ff59fa424dca"),
            ("m/0'/1/2'/2", "0f479245fb19a38a1954c5c7c0ebab2f9bdfd96a17563ef28a6a4b1a2a764ef4"),
            ("m/0'/1/2'/2/1000000000", "471b76e389e528d6de6d816857e012c5455051cad6660850e58372a6c3e6e7c8"),
        ] {
            let k = derive(&seed, &path.parse().unwrap()).unwrap_or_else(|e| panic!("BIP-32 TV1 {path}: {e}"));
            assert_eq!(k.secret(), hex32(key), "BIP-32 test vector 1, chain {path}");
        }
        println!("VERIF-NATIVE-CASES nb_bip32_published_vectors 5 nontrivial 5");
    }

    /// bound: the ten well-known `ganache --deterministic` accounts (m/44'/60'/0'/0/0..9 of the ganache mnemonic, empty passphrase)
    #[test]
    fn nb_ganache_published_accounts() {
        let m: Mnemonic = "myth like bonus scare over problem client lizard pioneer submit female collect".parse().unwrap();
        let seed = m.seed("");
        let want = [
            "0x90F8bf6A479f320ead074411a4B0e7944Ea8c9C1", "0xFFcf8FDEE72ac11b5c542428B35EEF5769C409f0", "0x22d491Bde2303f2f43325b2108D26f1eAbA1e32b",
            "0xE11BA2b4D45Eaed5996Cd0823791E0C93114882d", "0xd03ea8624C8C5987235048901fB614fDcA89b117", "0x95cED938F7991cd0dFcb48F0a06a40FA1aF46EBC",
            "0x3E5e9111Ae8eB78Fe1CC3bb8915d5D461F3Ef9A9", "0x28a8746e75304c0780E011BEd21C72cD78cd535E", "0xACa94ef8bD5ffEE41947b4585a84BdA5a3d3DA6E",
            "0x1dF62f291b2E969fB0849d99D9Ce41e2F137006e",
        ];
        for (i, a) in want.iter().enumerate() {
            let k = derive(&seed, &Path::for_index(i).unwrap()).unwrap();
            assert_eq!(k.address().to_string(), *a, "ganache deterministic account {i} (m/44'/60'/0'/0/{i})");
        }
        println!("VERIF-NATIVE-CASES nb_ganache_published_accounts 10 nontrivial 10");
    }
}
