// Native bounded stand-ins for C18 (complements the Kani contracts on Prefix::from_str / matches)
#[cfg(test)]
mod verif_native {
    use super::*;

    /// bound: all 1..=3-digit prefixes in every case combination (16 + 2*... exhaustively over the 22 hex characters),
    /// plus all strings of length <= 4 over {0, 9, a, f, A, F, g, x, -, space} after and without "0x"
    #[test]
    fn nb_prefix_parse_and_match() {
        let hexchars: Vec<char> = "0123456789abcdefABCDEF".chars().collect();
        let mut cases = 0u64;
        let addr = |first: [u8; 2]| {
            let mut a = [0x5au8; 20];
            a[0] = first[0];
            a[1] = first[1];
            Address(a)
        };
        for len in 1..=3usize {
            let mut idx = vec![0usize; len];
            loop {
                let digits: String = idx.iter().map(|i| hexchars[*i]).collect();
                let text = format!("0x{digits}");
                let p = std::panic::catch_unwind(|| text.parse::<Prefix>()).unwrap_or_else(|_| panic!("Prefix::from_str({text:?}) panicked"));
                let p = p.unwrap_or_else(|e| panic!("hex prefix {text:?} refused: {e}"));
                // matches exactly the addresses whose lower-case hex starts with the digits (case-insensitively)
                let want = digits.to_lowercase();
                for a0 in 0..=255u8 {
                    for a1 in [0x00u8, 0x0f, 0x10, 0x5a, 0xa5, 0xf0, 0xff, u8::from_str_radix(&format!("{:0<2}", want.get(2..).unwrap_or("0")), 16).unwrap_or(0)] {
                        let a = addr([a0, a1]);
                        let hex = ::hex::encode(a.0);
                        assert_eq!(p.matches(a), hex.starts_with(&want), "prefix {text:?} vs address 0x{hex}");
                        cases += 1;
                    }
                }
                // next
                let mut k = len;
                loop {
                    if k == 0 {
                        break;
                    }
                    k -= 1;
                    idx[k] += 1;
                    if idx[k] < hexchars.len() {
                        break;
                    }
                    idx[k] = 0;
                }
                if idx.iter().all(|i| *i == 0) {
                    break;
                }
            }
        }
        let alphabet = ['0', '9', 'a', 'f', 'A', 'F', 'g', 'x', '-', ' '];
        fn rec(alphabet: &[char], buf: &mut String, depth: usize, cases: &mut u64) {
            for text in [buf.clone(), format!("0x{buf}")] {
                let got = std::panic::catch_unwind(|| text.parse::<Prefix>().is_ok()).unwrap_or_else(|_| panic!("Prefix::from_str({text:?}) panicked"));
                let want = text.strip_prefix("0x").map_or(false, |d| d.chars().all(|c| c.is_ascii_hexdigit()));
                assert_eq!(got, want, "Prefix::from_str({text:?})");
                *cases += 1;
            }
            if depth == 0 {
                return;
            }
            for &c in alphabet {
                buf.push(c);
                rec(alphabet, buf, depth - 1, cases);
                buf.pop();
            }
        }
        rec(&alphabet, &mut String::new(), 4, &mut cases);
        println!("VERIF-NATIVE-CASES nb_prefix_parse_and_match {cases}");
    }
}
