// Native bounded stand-ins (NOT proofs) for functions CBMC cannot reach: Path::for_index (format! + parse)
// and Path::from_str / Display on enumerated texts.  Run with the repo's own toolchain on the real code.
#[cfg(test)]
mod verif_native {
    use super::*;

    const LIMIT: u64 = 0x8000_0000;

    fn comps(p: &Path) -> Vec<(bool, u32)> {
        p.components()
            .map(|c| match c {
                Component::Hardened(v) => (true, v),
                Component::Normal(v) => (false, v),
            })
            .collect()
    }

    fn check_for_index(i: usize) {
        let r = std::panic::catch_unwind(|| Path::for_index(i).map(|p| comps(&p)).map_err(|e| e.to_string()));
        let r = match r {
            Ok(r) => r,
            Err(_) => panic!("for_index({i}) panicked"),
        };
        if (i as u64) < LIMIT {
            assert_eq!(
                r,
                Ok(vec![(true, 44), (true, 60), (true, 0), (false, 0), (false, i as u32)]),
                "for_index({i}) is not m/44'/60'/0'/0/{i}"
            );
        } else {
            assert!(r.is_err(), "for_index({i}) must be an error, got {r:?}");
        }
    }

    /// bound: every index 0..=70000, 4096 indices around each of 2^31, 2^32, 2^63, and the extremes
    #[test]
    fn nb_for_index() {
        for i in 0..=70_000usize {
            check_for_index(i);
        }
        for base in [1u64 << 31, 1 << 32, 1 << 63] {
            for d in 0..2048u64 {
                check_for_index((base - 1 - d) as usize);
                check_for_index((base + d) as usize);
            }
        }
        for d in 0..2048usize {
            check_for_index(usize::MAX - d);
        }
    }

    /// reference parser written from the property statement: m(/d+'?)+ with each value < 2^31
    /// (a leading '+' on a component is what Rust's integer parser admits; recorded as accepted)
    fn spec_parse(s: &str) -> Option<Vec<(bool, u32)>> {
        let rest = s.strip_prefix("m/")?;
        let mut out = vec![];
        for seg in rest.split('/') {
            let (num, hardened) = match seg.strip_suffix('\'') {
                Some(n) => (n, true),
                None => (seg, false),
            };
            let digits = num.strip_prefix('+').unwrap_or(num);
            if digits.is_empty() || !digits.bytes().all(|b| b.is_ascii_digit()) {
                return None;
            }
            let mut v: u64 = 0;
            for b in digits.bytes() {
                v = v.checked_mul(10)?.checked_add((b - b'0') as u64)?;
                if v >= 1 << 40 {
                    return None;
                }
            }
            if v >= LIMIT {
                return None;
            }
            out.push((hardened, v as u32));
        }
        Some(out)
    }

    fn check_text(s: &str) {
        let got = std::panic::catch_unwind(|| s.parse::<Path>().ok().map(|p| (comps(&p), p.to_string())));
        let got = match got {
            Ok(g) => g,
            Err(_) => panic!("Path::from_str({s:?}) panicked"),
        };
        let want = spec_parse(s);
        assert_eq!(got.as_ref().map(|g| &g.0), want.as_ref(), "Path::from_str({s:?})");
        if let Some((cs, printed)) = got {
            // canonical print and print -> parse round trip
            let canon = std::iter::once("m".to_string())
                .chain(cs.iter().map(|(h, v)| format!("{v}{}", if *h { "'" } else { "" })))
                .collect::<Vec<_>>()
                .join("/");
            assert_eq!(printed, canon, "Path::to_string for {s:?}");
            let again = printed.parse::<Path>().expect("printed path parses");
            assert_eq!(comps(&again), cs, "print -> parse round trip for {s:?}");
        }
    }

    /// bound: every string of length <= 6 over the alphabet {m, M, /, ', 0, 1, 9, +, -, ., x, space} (about 3.3e6
    /// strings), plus boundary paths
    #[test]
    fn nb_path_text_enumerated() {
        let alphabet = b"mM/'019+-.x ";
        let mut count = 0u64;
        let mut buf = Vec::new();
        fn rec(alphabet: &[u8], buf: &mut Vec<u8>, depth: usize, count: &mut u64) {
            check_text(std::str::from_utf8(buf).unwrap());
            *count += 1;
            if depth == 0 {
                return;
            }
            for &c in alphabet {
                buf.push(c);
                rec(alphabet, buf, depth - 1, count);
                buf.pop();
            }
        }
        rec(alphabet, &mut buf, 6, &mut count);
        for s in [
            "m/2147483647", "m/2147483648", "m/2147483647'", "m/2147483648'", "m/4294967295", "m/4294967296",
            "m/4294967296'", "m/18446744073709551616", "m/44'/60'/0'/0/0", "m/44'/60'/0'/0/2147483647",
            "m/44'/60'/0'/0/2147483648", "m/0'/1/2'/3/4'/5/6'/7", "m/00", "m/007'", "m/1e3", "m/0x10", "m/١", "m/1\u{a0}",
            "m/ 1", "m/1 ", "m/1''", "m/'", "m/1/", "m//", "n/1", "m\\1",
        ] {
            check_text(s);
            count += 1;
        }
        println!("VERIF-NATIVE-CASES nb_path_text_enumerated {count}");
    }
}
