// Native bounded stand-ins (NOT proofs) for C08 / C09 / C20: a reference EIP-712 implementation written from the
// standard, compared with the real code on enumerated type graphs and values.  serde_json::Value / HashMap / BTreeMap
// code is outside the reach of both installed verifiers (see DESIGN.md section 5 C08).
#[cfg(test)]
mod verif_native {
    use super::*;
    use serde_json::{json, Map};

    // ------------------------------------------------------------------ reference implementation
    #[derive(Clone, Debug, PartialEq)]
    enum Ty {
        Bool,
        Address,
        Str,
        Bytes,
        BytesN(usize),
        Uint(u32),
        Int(u32),
        Array(Box<Ty>, Option<usize>),
        Struct(String),
    }
    fn parse_ty(s: &str) -> Ty {
        if let Some(inner) = s.strip_suffix("[]") {
            return Ty::Array(Box::new(parse_ty(inner)), None);
        }
        if let Some(rest) = s.strip_suffix(']') {
            if let Some((inner, n)) = rest.rsplit_once('[') {
                // canonical decimal only: "uint8[02]" / "uint8[+2]" are not spellings of uint8[2] (the type string is hashed as declared)
                if let Some(n) = n.parse::<usize>().ok().filter(|x| x.to_string() == n) {
                    return Ty::Array(Box::new(parse_ty(inner)), Some(n));
                }
            }
        }
        let width = |p: &str| s.strip_prefix(p).filter(|d| !d.is_empty() && !d.starts_with('0') && d.bytes().all(|b| b.is_ascii_digit())).and_then(|d| d.parse::<u32>().ok());
        match s {
            "bool" => Ty::Bool,
            "address" => Ty::Address,
            "string" => Ty::Str,
            "bytes" => Ty::Bytes,
            _ => {
                if let Some(n) = width("bytes").filter(|n| (1..=32).contains(n)) {
                    Ty::BytesN(n as usize)
                } else if let Some(n) = width("uint").filter(|n| n % 8 == 0 && (8..=256).contains(n)) {
                    Ty::Uint(n)
                } else if let Some(n) = width("int").filter(|n| n % 8 == 0 && (8..=256).contains(n)) {
                    Ty::Int(n)
                } else {
                    Ty::Struct(s.to_string())
                }
            }
        }
    }
    type Defs = Vec<(String, Vec<(String, String)>)>; // struct name -> [(member name, type string)]
    fn def<'a>(defs: &'a Defs, name: &str) -> Option<&'a Vec<(String, String)>> {
        defs.iter().find(|(n, _)| n == name).map(|(_, m)| m)
    }
    fn struct_ref(t: &Ty) -> Option<&str> {
        match t {
            Ty::Struct(n) => Some(n),
            Ty::Array(i, _) => struct_ref(i),
            _ => None,
        }
    }
    /// encodeType: primary first, then every transitively referenced struct type exactly once in name order
    fn encode_type(defs: &Defs, primary: &str) -> Option<String> {
        let mut closure: std::collections::BTreeSet<String> = Default::default();
        let mut todo = vec![primary.to_string()];
        while let Some(n) = todo.pop() {
            for (_, t) in def(defs, &n)? {
                if let Some(r) = struct_ref(&parse_ty(t)) {
                    if r != primary && closure.insert(r.to_string()) {
                        todo.push(r.to_string());
                    }
                }
            }
        }
        let one = |n: &str| -> Option<String> { Some(format!("{n}({})", def(defs, n)?.iter().map(|(m, t)| format!("{t} {m}")).collect::<Vec<_>>().join(","))) };
        let mut out = one(primary)?;
        for n in closure {
            out.push_str(&one(&n)?);
        }
        Some(out)
    }
    fn keccak(b: impl AsRef<[u8]>) -> [u8; 32] {
        Digest::of(b).0
    }
    fn num_u256(v: &Value) -> Option<U256> {
        match v {
            Value::Number(n) => {
                if let Some(u) = n.as_u64() {
                    Some(U256::from(u))
                } else if n.is_i64() {
                    None
                } else {
                    let f = n.as_f64()?;
                    if f >= 0.0 && f < 9007199254740992.0 && f.fract() == 0.0 { Some(U256::from(f as u64)) } else { None }
                }
            }
            Value::String(s) => {
                if let Some(h) = s.strip_prefix("0x") {
                    if h.is_empty() || h.len() > 64 || !h.bytes().all(|b| b.is_ascii_hexdigit()) { return None; }
                    U256::from_str_radix(h, 16).ok()
                } else {
                    if s.is_empty() || !s.bytes().all(|b| b.is_ascii_digit()) { return None; }
                    U256::from_str_radix(s, 10).ok()
                }
            }
            _ => None,
        }
    }
    fn num_i256(v: &Value) -> Option<I256> {
        match v {
            Value::Number(n) => {
                if let Some(i) = n.as_i64() {
                    Some(I256::from(i))
                } else if let Some(u) = n.as_u64() {
                    Some(I256::from(u))
                } else {
                    let f = n.as_f64()?;
                    if f.abs() < 9007199254740992.0 && f.fract() == 0.0 { Some(I256::from(f as i64)) } else { None }
                }
            }
            Value::String(s) => {
                let (neg, body) = match s.strip_prefix('-') { Some(b) => (true, b), None => (false, s.as_str()) };
                let mag = num_u256(&Value::String(body.to_string()))?;
                let limit = U256::ONE << 255;
                if neg {
                    if mag > limit { return None; }
                    Some(if mag == limit { I256::MIN } else { -(mag.as_i256()) })
                } else {
                    if mag >= limit { return None; }
                    Some(mag.as_i256())
                }
            }
            _ => None,
        }
    }
    fn hex_bytes(v: &Value) -> Option<Vec<u8>> {
        let s = v.as_str()?.strip_prefix("0x")?;
        if s.len() % 2 != 0 || !s.bytes().all(|b| b.is_ascii_hexdigit()) { return None; }
        Some((0..s.len() / 2).map(|i| u8::from_str_radix(&s[2 * i..2 * i + 2], 16).unwrap()).collect())
    }
    /// encodeData word of one value; None = the value is not a value of the type
    fn encode_value(defs: &Defs, t: &Ty, v: &Value) -> Option<[u8; 32]> {
        Some(match t {
            Ty::Bool => {
                let mut w = [0u8; 32];
                w[31] = v.as_bool()? as u8;
                w
            }
            Ty::Address => {
                let b = hex_bytes(v)?;
                if b.len() != 20 { return None; }
                let mut w = [0u8; 32];
                w[12..].copy_from_slice(&b);
                w
            }
            Ty::Str => keccak(v.as_str()?),
            Ty::Bytes => keccak(hex_bytes(v)?),
            Ty::BytesN(n) => {
                let b = hex_bytes(v)?;
                if b.len() != *n { return None; }
                let mut w = [0u8; 32];
                w[..*n].copy_from_slice(&b);
                w
            }
            Ty::Uint(n) => {
                let x = num_u256(v)?;
                if *n < 256 && x >= (U256::ONE << *n) { return None; }
                x.to_be_bytes()
            }
            Ty::Int(n) => {
                let x = num_i256(v)?;
                if *n < 256 {
                    let half = I256::ONE << (*n - 1);
                    if x >= half || x < -half { return None; }
                }
                x.to_be_bytes()
            }
            Ty::Array(inner, size) => {
                let a = v.as_array()?;
                if let Some(s) = size { if a.len() != *s { return None; } }
                let mut buf = vec![];
                for e in a { buf.extend_from_slice(&encode_value(defs, inner, e)?); }
                keccak(buf)
            }
            Ty::Struct(name) => hash_struct(defs, name, v.as_object()?)?,
        })
    }
    fn hash_struct(defs: &Defs, name: &str, obj: &Map<String, Value>) -> Option<[u8; 32]> {
        let members = def(defs, name)?;
        let mut buf = keccak(encode_type(defs, name)?).to_vec();
        for (m, t) in members {
            buf.extend_from_slice(&encode_value(defs, &parse_ty(t), obj.get(m)?)?);
        }
        // no undeclared members; duplicate member names make the document unsatisfiable
        if obj.len() != members.len() || members.iter().map(|(m, _)| m).collect::<std::collections::BTreeSet<_>>().len() != members.len() { return None; }
        Some(keccak(buf))
    }
    const DOMAIN_FIELDS: [(&str, &str); 5] = [("name", "string"), ("version", "string"), ("chainId", "uint256"), ("verifyingContract", "address"), ("salt", "bytes32")];
    fn domain_ok(members: &[(String, String)]) -> bool {
        if members.is_empty() { return false; }
        let mut next = 0;
        for (n, t) in members {
            match DOMAIN_FIELDS[next..].iter().position(|(fnm, _)| fnm == n) {
                Some(p) => {
                    if DOMAIN_FIELDS[next + p].1 != t { return false; }
                    next += p + 1;
                }
                None => return false,
            }
        }
        true
    }
    /// (digest, domain separator, message hash) per EIP-712, None if the document must be refused
    fn reference(defs: &Defs, primary: &str, domain: &Map<String, Value>, message: &Map<String, Value>) -> Option<([u8; 32], [u8; 32], [u8; 32])> {
        if !domain_ok(def(defs, "EIP712Domain")?) { return None; }
        let ds = hash_struct(defs, "EIP712Domain", domain)?;
        let mh = hash_struct(defs, primary, message)?;
        let mut pre = vec![0x19, 0x01];
        pre.extend_from_slice(&ds);
        pre.extend_from_slice(&mh);
        Some((keccak(pre), ds, mh))
    }
    fn document(defs: &Defs, primary: &str, domain: &Map<String, Value>, message: &Map<String, Value>) -> String {
        let types: Map<String, Value> = defs.iter().map(|(n, ms)| (n.clone(), Value::Array(ms.iter().map(|(m, t)| json!({"name": m, "type": t})).collect()))).collect();
        json!({"types": types, "primaryType": primary, "domain": domain, "message": message}).to_string()
    }
    /// C17 "never hangs": every evaluation of the code under test is registered with a watchdog thread; one that is still
    /// running after LIMIT (it normally takes microseconds) is reported with its input and the test process is ended.
    mod watchdog {
        use std::{collections::HashMap, io::Write as _, sync::{Mutex, OnceLock}, thread, time::{Duration, Instant}};
        pub const LIMIT: Duration = Duration::from_secs(60);
        static SLOTS: OnceLock<Mutex<HashMap<thread::ThreadId, (Instant, String, String)>>> = OnceLock::new();
        pub struct Guard;
        pub fn enter(input: &str) -> Guard {
            let slots = SLOTS.get_or_init(|| {
                thread::spawn(watch);
                Mutex::new(HashMap::new())
            });
            let t = thread::current();
            if let Ok(mut g) = slots.lock() {
                g.insert(t.id(), (Instant::now(), t.name().unwrap_or("?").to_string(), input.to_string()));
            }
            Guard
        }
        impl Drop for Guard {
            fn drop(&mut self) {
                if let Some(Ok(mut g)) = SLOTS.get().map(|s| s.lock()) {
                    g.remove(&thread::current().id());
                }
            }
        }
        fn watch() {
            loop {
                thread::sleep(Duration::from_millis(500));
                if let Some(Ok(g)) = SLOTS.get().map(|s| s.lock()) {
                    for (t0, name, input) in g.values() {
                        if t0.elapsed() > LIMIT {
                            // written directly: the print macros of a thread spawned by a test are captured by libtest
                            let _ = writeln!(std::io::stdout(), "\nVERIF-NATIVE-HANG {name} did not terminate within {} s on input: {input}", LIMIT.as_secs());
                            std::process::exit(3);
                        }
                    }
                }
            }
        }
    }
    fn run_real(doc: &str) -> Option<([u8; 32], [u8; 32], [u8; 32])> {
        let _alive = watchdog::enter(doc);
        let d = doc.to_string();
        let r = std::panic::catch_unwind(move || serde_json::from_str::<TypedData>(&d).ok().map(|t| (t.signing_message().0, t.domain_separator().0, t.message_hash().0)));
        r.unwrap_or_else(|_| panic!("typed data panicked on {doc}"))
    }
    fn compare(defs: &Defs, primary: &str, domain: &Map<String, Value>, message: &Map<String, Value>) -> bool {
        let doc = document(defs, primary, domain, message);
        let want = reference(defs, primary, domain, message);
        let got = run_real(&doc);
        assert_eq!(got, want, "EIP-712 result differs from the reference for {doc}\nencodeType({primary}) = {:?}", encode_type(defs, primary));
        got.is_some()
    }

    // ------------------------------------------------------------------ generators
    fn sample(defs: &Defs, t: &Ty, salt: u64, depth: usize) -> Value {
        match t {
            Ty::Bool => json!(salt % 2 == 0),
            Ty::Address => json!(format!("0x{}", format!("{:02x}", salt % 251).repeat(20))),
            Ty::Str => json!(format!("s{salt}\u{e9}")),
            Ty::Bytes => json!(format!("0x{}", "ab".repeat((salt % 5) as usize))),
            Ty::BytesN(n) => json!(format!("0x{}", format!("{:02x}", salt % 256).repeat(*n))),
            Ty::Uint(n) => {
                let max = if *n == 256 { U256::MAX } else { (U256::ONE << *n) - 1 };
                match salt % 4 { 0 => json!(0), 1 => json!(max.to_string()), 2 => json!(format!("{max:#x}")), _ => json!((salt % 200) as u64) }
            }
            Ty::Int(n) => {
                let half = if *n == 256 { I256::MIN } else { -(I256::ONE << (*n - 1)) };
                match salt % 4 { 0 => json!(half.to_string()), 1 => json!((-(half + 1)).to_string()), 2 => json!(-((salt % 100) as i64)), _ => json!((salt % 100) as i64) }
            }
            Ty::Array(inner, size) => {
                let n = size.unwrap_or(if depth >= 2 { 0 } else { (salt % 3) as usize });
                Value::Array((0..n).map(|i| sample(defs, inner, salt.wrapping_mul(31).wrapping_add(i as u64), depth + 1)).collect())
            }
            Ty::Struct(name) => Value::Object(sample_struct(defs, name, salt, depth + 1)),
        }
    }
    fn sample_struct(defs: &Defs, name: &str, salt: u64, depth: usize) -> Map<String, Value> {
        def(defs, name).map(|ms| ms.iter().enumerate().map(|(i, (m, t))| (m.clone(), sample(defs, &parse_ty(t), salt.wrapping_add(7 * i as u64 + 1), depth))).collect()).unwrap_or_default()
    }
    fn d(name: &str, members: &[(&str, &str)]) -> (String, Vec<(String, String)>) {
        (name.to_string(), members.iter().map(|(m, t)| (m.to_string(), t.to_string())).collect())
    }
    fn std_domain() -> ((String, Vec<(String, String)>), Map<String, Value>) {
        (d("EIP712Domain", &[("name", "string"), ("chainId", "uint256")]), json!({"name": "n", "chainId": 5}).as_object().unwrap().clone())
    }

    /// bound: primary type P with every list of 1..=3 member kinds drawn from 16 kinds (atomic, struct references,
    /// arrays incl. nested / fixed / recursive P[]), crossed with 5 variants of the helper structs A, B, C (independent,
    /// chains, shared and repeated dependencies, mutual recursion through arrays): 4368 x 5 documents, conforming values
    #[test]
    fn nb_eip712_type_graphs_vs_reference() {
        let kinds = ["uint8", "int16", "bool", "address", "string", "bytes", "bytes3", "uint256", "A", "B", "C", "A[]", "B[2]", "C[][1]", "P[]", "int256[2][]"];
        let helper_variants: Vec<Vec<(String, Vec<(String, String)>)>> = vec![
            vec![d("A", &[("v", "uint8")]), d("B", &[("v", "string")]), d("C", &[("v", "bytes2")])],
            vec![d("A", &[("b", "B")]), d("B", &[("c", "C[]")]), d("C", &[("v", "int8")])],
            vec![d("A", &[("x", "C"), ("y", "B"), ("z", "C")]), d("B", &[("c", "C")]), d("C", &[("v", "bool")])],
            vec![d("A", &[("b", "B[]")]), d("B", &[("a", "A[]"), ("p", "P[]")]), d("C", &[("a", "A")])],
            vec![d("C", &[("v", "uint8")]), d("B", &[("c", "C[1]"), ("c2", "C[]")]), d("A", &[("self", "A[]"), ("b", "B")])],
        ];
        let (dom_def, dom) = std_domain();
        let (mut cases, mut accepted) = (0u64, 0u64);
        for (hv, helpers) in helper_variants.iter().enumerate() {
            let mut lists: Vec<Vec<usize>> = vec![];
            for a in 0..kinds.len() {
                lists.push(vec![a]);
                for b in 0..kinds.len() {
                    lists.push(vec![a, b]);
                    for c in 0..kinds.len() {
                        lists.push(vec![a, b, c]);
                    }
                }
            }
            for (li, l) in lists.iter().enumerate() {
                let mut defs: Defs = vec![dom_def.clone()];
                defs.push(("P".to_string(), l.iter().enumerate().map(|(i, k)| (format!("m{i}"), kinds[*k].to_string())).collect()));
                defs.extend(helpers.iter().cloned());
                let msg = sample_struct(&defs, "P", (li * 5 + hv) as u64, 0);
                if compare(&defs, "P", &dom, &msg) { accepted += 1; }
                if li % 1500 == 7 && hv < 2 { println!("VERIF-NATIVE-SAMPLE nb_eip712_type_graphs_vs_reference {}", document(&defs, "P", &dom, &msg)); }
                cases += 1;
            }
        }
        println!("VERIF-NATIVE-CASES nb_eip712_type_graphs_vs_reference {cases} nontrivial {accepted}");
    }

    /// bound: every integer width 8..=256 at the six range boundaries of uintN and intN in number / decimal / hex
    /// spellings; bytesN for N = 1..=32 with N-1, N, N+1 bytes; fixed arrays of size 0..=3 with size-1, size, size+1
    /// elements; missing / undeclared members; undefined struct types; every JSON kind against every type kind;
    /// each offending value also nested inside a struct inside an array
    #[test]
    fn nb_eip712_nonconforming_values_refused() {
        let (dom_def, dom) = std_domain();
        let (mut cases, mut accepted) = (0u64, 0u64);
        let mut check = |ty: &str, v: Value| {
            // flat position
            let defs: Defs = vec![dom_def.clone(), d("P", &[("x", ty)])];
            let msg = json!({"x": v.clone()}).as_object().unwrap().clone();
            if compare(&defs, "P", &dom, &msg) { accepted += 1; }
            // nested: P(Q[] qs), Q(uint8 a, <ty> x)
            let defs: Defs = vec![dom_def.clone(), d("P", &[("qs", "Q[]")]), d("Q", &[("a", "uint8"), ("x", ty)])];
            let msg = json!({"qs": [{"a": 1, "x": sample(&defs, &parse_ty(ty), 3, 0)}, {"a": 2, "x": v}]}).as_object().unwrap().clone();
            if compare(&defs, "P", &dom, &msg) { accepted += 1; }
            cases += 2;
        };
        for k in 1..=32u32 {
            let n = 8 * k;
            let two_n = if n == 256 { None } else { Some(U256::ONE << n) };
            let half = U256::ONE << (n - 1);
            let mut boundary: Vec<String> = vec![(half - 1).to_string(), half.to_string(), format!("-{half}"), format!("-{}", half + 1), "-1".into(), "0".into()];
            if let Some(t) = two_n {
                boundary.push((t - 1).to_string());
                boundary.push(t.to_string());
            } else {
                boundary.push(U256::MAX.to_string());
                boundary.push("115792089237316195423570985008687907853269984665640564039457584007913129639936".into());
            }
            for b in &boundary {
                for ty in [format!("uint{n}"), format!("int{n}")] {
                    check(&ty, json!(b));
                    if let Ok(i) = b.parse::<i64>() { check(&ty, json!(i)); }
                    if let Ok(u) = b.parse::<u64>() { check(&ty, json!(u)); }
                    if let Ok(u) = U256::from_str_radix(b, 10) { check(&ty, json!(format!("{u:#x}"))); }
                    if let Ok(f) = b.parse::<f64>() { if f.abs() < 1e15 { check(&ty, json!(f)); check(&ty, json!(f + 0.5)); } }
                }
            }
        }
        for n in 1..=32usize {
            for l in [n - 1, n, n + 1] {
                check(&format!("bytes{n}"), json!(format!("0x{}", "7f".repeat(l))));
            }
        }
        for size in 0..=3usize {
            for m in [size.wrapping_sub(1), size, size + 1] {
                if m == usize::MAX { continue; }
                check(&format!("uint8[{size}]"), Value::Array((0..m).map(|i| json!(i)).collect()));
                check(&format!("uint8[{size}][]"), json!([Value::Array((0..m).map(|i| json!(i)).collect())]));
            }
        }
        let json_kinds = [json!(null), json!(true), json!(1), json!(-1), json!(1.5), json!("x"), json!("0x"), json!("0x00"), json!("0x0x"), json!("0x0x00"), json!("0X00"), json!("0x0"), json!([]), json!([1]), json!({}), json!({"v": 1})];
        for ty in ["bool", "address", "string", "bytes", "bytes1", "uint8", "int8", "uint8[]", "S", "S[]", "Undefined", "Undefined[]"] {
            for v in &json_kinds {
                let defs: Defs = vec![dom_def.clone(), d("P", &[("x", ty)]), d("S", &[("v", "uint8")])];
                let msg = json!({"x": v}).as_object().unwrap().clone();
                if compare(&defs, "P", &dom, &msg) { accepted += 1; }
                cases += 1;
            }
        }
        // missing and undeclared members, at top level and nested
        let defs: Defs = vec![dom_def.clone(), d("P", &[("a", "uint8"), ("s", "S")]), d("S", &[("v", "uint8"), ("w", "bool")])];
        for msg in [json!({"a": 1, "s": {"v": 1, "w": true}}), json!({"s": {"v": 1, "w": true}}), json!({"a": 1}), json!({"a": 1, "s": {"v": 1}}), json!({"a": 1, "s": {"v": 1, "w": true, "z": 0}}),
                    json!({"a": 1, "s": {"v": 1, "w": true}, "z": 0}), json!({}), json!({"a": 1, "s": {}})] {
            if compare(&defs, "P", &dom, msg.as_object().unwrap()) { accepted += 1; }
            cases += 1;
        }
        // member-less structs: only the empty object is a value, at the top level, nested and inside arrays
        let defs: Defs = vec![dom_def.clone(), d("P", &[("e", "E"), ("es", "E[]")]), d("E", &[])];
        for msg in [json!({"e": {}, "es": []}), json!({"e": {}, "es": [{}, {}]}), json!({"e": {"x": 1}, "es": []}), json!({"e": {}, "es": [{}, {"z": 0}]}), json!({"e": [], "es": []}), json!({"e": null, "es": []})] {
            if compare(&defs, "P", &dom, msg.as_object().unwrap()) { accepted += 1; }
            cases += 1;
        }
        for msg in [json!({}), json!({"a": 1}), json!({"to": "0x00", "amount": "1000"})] {
            if compare(&defs, "E", &dom, msg.as_object().unwrap()) { accepted += 1; }
            cases += 1;
        }
        // missing primary type / missing domain values / extra domain values
        let defs: Defs = vec![dom_def.clone(), d("P", &[("a", "uint8")])];
        let msg = json!({"a": 1}).as_object().unwrap().clone();
        if compare(&defs, "Q", &dom, &msg) { accepted += 1; }
        if compare(&defs, "P", json!({"name": "n"}).as_object().unwrap(), &msg) { accepted += 1; }
        if compare(&defs, "P", json!({"name": "n", "chainId": 1, "salt": "0x00"}).as_object().unwrap(), &msg) { accepted += 1; }
        cases += 3;
        println!("VERIF-NATIVE-CASES nb_eip712_nonconforming_values_refused {cases} nontrivial {accepted}");
    }

    /// bound: every sequence of 0..=5 members over the five standard names and one foreign name with the standard types
    /// (9331 sequences, including all 326 duplicate-free orderings of subsets and all repeats); for each of the 31
    /// well-formed domains every single-position substitution by 10 other types and by up to 12 near-miss spellings of the
    /// standard name (letter case, padding, NUL, plural, truncation, combining mark, homoglyph); a document without EIP712Domain
    #[test]
    fn nb_domain_types_enumerated() {
        let names = ["name", "version", "chainId", "verifyingContract", "salt", "foo"];
        let ty_of = |n: &str| DOMAIN_FIELDS.iter().find(|(f, _)| *f == n).map(|(_, t)| *t).unwrap_or("string");
        let value_of = |t: &str| sample(&vec![], &parse_ty(t), 9, 0);
        let (mut cases, mut accepted) = (0u64, 0u64);
        let mut seqs: Vec<Vec<usize>> = vec![vec![]];
        let mut frontier: Vec<Vec<usize>> = vec![vec![]];
        for _ in 0..5 {
            let mut next = vec![];
            for s in &frontier {
                for i in 0..names.len() {
                    let mut t = s.clone();
                    t.push(i);
                    next.push(t);
                }
            }
            seqs.extend(next.iter().cloned());
            frontier = next;
        }
        let msg_def = d("P", &[("a", "uint8")]);
        let msg = json!({"a": 1}).as_object().unwrap().clone();
        let mut well_formed: Vec<Vec<(String, String)>> = vec![];
        for s in &seqs {
            let members: Vec<(String, String)> = s.iter().map(|i| (names[*i].to_string(), ty_of(names[*i]).to_string())).collect();
            let defs: Defs = vec![("EIP712Domain".to_string(), members.clone()), msg_def.clone()];
            // domain object: one value per distinct declared member
            let dom: Map<String, Value> = members.iter().map(|(n, t)| (n.clone(), value_of(t))).collect();
            if compare(&defs, "P", &dom, &msg) {
                accepted += 1;
                if accepted % 10 == 1 { println!("VERIF-NATIVE-SAMPLE nb_domain_types_enumerated accepted: {:?}", members.iter().map(|(n, t)| format!("{t} {n}")).collect::<Vec<_>>()); }
                well_formed.push(members);
            } else if cases % 3000 == 17 {
                println!("VERIF-NATIVE-SAMPLE nb_domain_types_enumerated refused: {:?}", members.iter().map(|(n, t)| format!("{t} {n}")).collect::<Vec<_>>());
            }
            cases += 1;
        }
        assert_eq!(well_formed.len(), 31, "exactly the 31 well-formed domain types are accepted");
        let other_types = ["bytes", "uint8", "uint128", "int256", "bytes31", "bytes32[]", "string[]", "String", "address payable", "bool"];
        for members in &well_formed {
            for pos in 0..members.len() {
                for t in other_types.iter().chain(["string", "uint256", "address", "bytes32"].iter()) {
                    let mut m2 = members.clone();
                    m2[pos].1 = t.to_string();
                    let defs: Defs = vec![("EIP712Domain".to_string(), m2.clone()), msg_def.clone(), d("String", &[("v", "uint8")])];
                    let dom: Map<String, Value> = m2.iter().map(|(n, t)| (n.clone(), sample(&defs, &parse_ty(t), 9, 0))).collect();
                    if compare(&defs, "P", &dom, &msg) { accepted += 1; }
                    cases += 1;
                }
            }
        }
        // near misses of a standard name, in the standard position and with the standard type: foreign names, refused
        let near = |n: &str| -> Vec<String> {
            let mut v = vec![n.to_lowercase(), n.to_uppercase(), format!("{}{}", n[..1].to_uppercase(), &n[1..]), format!("{n} "), format!(" {n}"), format!("{n}\0"),
                format!("{n}s"), n[..n.len() - 1].to_string(), format!("{n}\u{301}"), n.replace('a', "\u{430}"), n.replace("Id", "ID"), n.replace('C', "c")];
            v.retain(|x| x != n);
            v.sort();
            v.dedup();
            v
        };
        let mut near_cases = 0u64;
        for members in &well_formed {
            for pos in 0..members.len() {
                for alt in near(&members[pos].0) {
                    let mut m2 = members.clone();
                    m2[pos].0 = alt;
                    let defs: Defs = vec![("EIP712Domain".to_string(), m2.clone()), msg_def.clone()];
                    let dom: Map<String, Value> = m2.iter().map(|(n, t)| (n.clone(), value_of(t))).collect();
                    assert!(!compare(&defs, "P", &dom, &msg), "domain type with the non-standard member name {:?} was accepted", m2[pos].0);
                    cases += 1;
                    near_cases += 1;
                }
            }
        }
        assert!(near_cases > 500);
        let defs: Defs = vec![msg_def.clone()];
        if compare(&defs, "P", &Map::new(), &msg) { accepted += 1; }
        cases += 1;
        println!("VERIF-NATIVE-CASES nb_domain_types_enumerated {cases} nontrivial {accepted}");
    }

    /// bound: the atomic type grammar: every keyword, bytes0..=40, uint/int 0..=300 (canonical spelling, no leading zeros), 11 non-ASCII names, 13 non-canonical spellings (uint08, uint+8, …), and array
    /// suffix combinations up to depth 3 with sizes {none, 0, 1, 18446744073709551615, 02, +2, ' 2', -1} plus depth 64: parse -> print is
    /// the identity on canonical strings and the parsed kind agrees with the reference grammar
    #[test]
    fn nb_member_kind_grammar() {
        fn same(k: &MemberKind, t: &Ty) -> bool {
            match (k, t) {
                (MemberKind::Bool, Ty::Bool) | (MemberKind::Address, Ty::Address) | (MemberKind::String, Ty::Str) | (MemberKind::Bytes(None), Ty::Bytes) => true,
                (MemberKind::Bytes(Some(a)), Ty::BytesN(b)) => *a as usize == *b,
                (MemberKind::Uint(a), Ty::Uint(b)) | (MemberKind::Int(a), Ty::Int(b)) => a == b,
                (MemberKind::Struct(a), Ty::Struct(b)) => a == b,
                (MemberKind::Array(a, x), Ty::Array(b, y)) => x == y && same(a, b),
                _ => false,
            }
        }
        let mut bases: Vec<String> = ["bool", "address", "string", "bytes", "Person", "uint", "int", "byte", "uint8x", "Bool", "",
            // non-ASCII names, Unicode numerics, digits after multi-byte characters
            // non-canonical numbers and stray characters after the keyword: struct names, not atomic types
            "uint08", "int008", "bytes04", "bytes032", "uint+8", "int+256", "bytes+4", "int-8", "uint 8", "uint8 ", "uint_8", "uint8x8", "uint0x8",
            "\u{e9}1", "Gr\u{f6}\u{df}e2", "\u{b2}", "uint\u{b2}", "\u{661}\u{662}", "bytes\u{661}", "\u{dc}nit8", "\u{540d}\u{524d}", "\u{540d}\u{524d}1", "\u{1f980}8", "a\u{301}9"].iter().map(|s| s.to_string()).collect();
        for n in 0..=40 { bases.push(format!("bytes{n}")); }
        for n in 0..=300 { bases.push(format!("uint{n}")); bases.push(format!("int{n}")); }
        let suffixes = ["", "[]", "[0]", "[1]", "[18446744073709551615]", "[02]", "[+2]", "[ 2]", "[-1]"];
        let mut cases = 0u64;
        for b in &bases {
            for s1 in suffixes { for s2 in suffixes { for s3 in suffixes {
                if (s1.is_empty() && !(s2.is_empty() && s3.is_empty())) || (s2.is_empty() && !s3.is_empty()) { continue; }
                let text = format!("{b}{s1}{s2}{s3}");
                let k = std::panic::catch_unwind(|| MemberKind::from_str(&text)).unwrap_or_else(|_| panic!("MemberKind::from_str({text:?}) panicked"));
                assert!(same(&k, &parse_ty(&text)), "MemberKind::from_str({text:?}) = {k:?}, reference {:?}", parse_ty(&text));
                assert_eq!(k.to_string(), text, "type string {text:?} does not print back");
                cases += 1;
            }}}
        }
        let deep = format!("uint8{}", "[]".repeat(64));
        assert_eq!(MemberKind::from_str(&deep).to_string(), deep);
        println!("VERIF-NATIVE-CASES nb_member_kind_grammar {cases}");
    }
}
