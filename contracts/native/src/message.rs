// Native bounded stand-in for C10 (the unbounded statement is the Verus unit contracts/verus/message.rs): closes the
// two assumed std contracts (decimal usize Display into a Vec<u8>; Vec::with_capacity) against the real code.
#[cfg(test)]
mod verif_native {
    use super::*;

    fn reference(m: &[u8]) -> Digest {
        let mut pre = vec![0x19u8];
        pre.extend_from_slice("Ethereum Signed Message:\n".as_bytes());
        // decimal digits, written out by hand (no Display)
        let mut n = m.len();
        let mut digits = vec![];
        loop {
            digits.push(b'0' + (n % 10) as u8);
            n /= 10;
            if n == 0 {
                break;
            }
        }
        digits.reverse();
        pre.extend_from_slice(&digits);
        pre.extend_from_slice(m);
        Digest::of(pre)
    }

    /// bound: every length 0..=1100 and powers of ten +-1 up to 10^6; contents: all-zero, all-0xff, and a byte ramp
    /// (covers every byte value incl. invalid UTF-8)
    #[test]
    fn nb_eip191_lengths() {
        let mut lens: Vec<usize> = (0..=1100).collect();
        for p in [1_000usize, 10_000, 100_000, 1_000_000] {
            lens.extend([p - 1, p, p + 1]);
        }
        let mut cases = 0u64;
        for l in lens {
            for fill in 0..3 {
                let m: Vec<u8> = (0..l).map(|i| match fill { 0 => 0, 1 => 0xff, _ => (i * 7 + 3) as u8 }).collect();
                assert_eq!(digest(&m), reference(&m), "digest of {l} bytes (fill {fill})");
                assert_eq!(EthereumMessage(&m).signing_message(), reference(&m), "signing_message of {l} bytes");
                cases += 1;
            }
        }
        println!("VERIF-NATIVE-CASES nb_eip191_lengths {cases}");
    }
}
