// Native bounded stand-ins at the process level (clap, environment, stdout, exit status, threads): everything a
// sequential contract verifier cannot see.  NOT proofs: each test states its bound.
use ethdigest::Digest;
use hdwallet::{account::PrivateKey, hdk, mnemonic::Mnemonic, transaction::Transaction, typeddata::TypedData};
use k256::ecdsa::{RecoveryId, Signature as KSig, VerifyingKey};
use std::{
    io::Write as _,
    process::{Command, Stdio},
};

const BIN: &str = env!("CARGO_BIN_EXE_hdwallet");
const GANACHE: &str = "myth like bonus scare over problem client lizard pioneer submit female collect";
const OTHER: &str = "legal winner thank year wave sausage worth useful legal winner thank year wave sausage worth useful legal will";

struct Out {
    code: Option<i32>,
    stdout: String,
    stderr: String,
}
/// C17 "never hangs": a child that is still running after LIMIT_S seconds is killed and reported with its input
/// (ordinary commands take milliseconds; a 3-digit vanity search on one thread takes seconds).
const LIMIT_S: u64 = 600;
fn wait_bounded(mut p: std::process::Child, what: &str) -> std::process::Output {
    use std::sync::{atomic::{AtomicBool, Ordering}, Arc};
    let pid = p.id();
    let done = Arc::new(AtomicBool::new(false));
    let killed = Arc::new(AtomicBool::new(false));
    let (d2, k2) = (done.clone(), killed.clone());
    let t = std::thread::spawn(move || {
        let t0 = std::time::Instant::now();
        while !d2.load(Ordering::SeqCst) {
            if t0.elapsed().as_secs() >= LIMIT_S {
                k2.store(true, Ordering::SeqCst);
                let _ = Command::new("kill").args(["-9", &pid.to_string()]).status();
                return;
            }
            std::thread::sleep(std::time::Duration::from_millis(50));
        }
    });
    // read the pipes while waiting (a full pipe would block the child)
    let o = {
        let so = p.stdout.take();
        let se = p.stderr.take();
        let hso = std::thread::spawn(move || { let mut b = Vec::new(); if let Some(mut s) = so { let _ = std::io::Read::read_to_end(&mut s, &mut b); } b });
        let hse = std::thread::spawn(move || { let mut b = Vec::new(); if let Some(mut s) = se { let _ = std::io::Read::read_to_end(&mut s, &mut b); } b });
        let status = p.wait().unwrap();
        std::process::Output { status, stdout: hso.join().unwrap(), stderr: hse.join().unwrap() }
    };
    done.store(true, Ordering::SeqCst);
    let _ = t.join();
    assert!(!killed.load(Ordering::SeqCst), "did not terminate within {LIMIT_S} s: {what}");
    o
}
fn run(args: &[&str], env: &[(&str, &str)], stdin: Option<&[u8]>) -> Out {
    let mut c = Command::new(BIN);
    c.args(args).env_remove("MNEMONIC").env_remove("PASSWORD").env_remove("ACCOUNT_INDEX").env_remove("HD_PATH");
    for (k, v) in env {
        c.env(k, v);
    }
    c.stdin(Stdio::piped()).stdout(Stdio::piped()).stderr(Stdio::piped());
    let mut p = c.spawn().unwrap();
    {
        let mut si = p.stdin.take().unwrap();
        if let Some(d) = stdin {
            let _ = si.write_all(d);
        }
    }
    let o = wait_bounded(p, &format!("{args:?} (stdin {:?})", stdin.map(|s| String::from_utf8_lossy(&s[..s.len().min(200)]).to_string())));
    Out { code: o.status.code(), stdout: String::from_utf8_lossy(&o.stdout).trim().to_string(), stderr: String::from_utf8_lossy(&o.stderr).trim().to_string() }
}
fn ok(args: &[&str], env: &[(&str, &str)], stdin: Option<&[u8]>) -> String {
    let o = run(args, env, stdin);
    assert_eq!(o.code, Some(0), "{args:?} failed: {}", o.stderr);
    o.stdout
}
/// an ordinary error: non-zero exit that is not a panic (101) or a signal, a message on stderr, nothing on stdout
fn ordinary_error(args: &[&str], env: &[(&str, &str)], stdin: Option<&[u8]>) {
    let o = run(args, env, stdin);
    assert!(matches!(o.code, Some(c) if c != 0 && c != 101), "{args:?} (stdin {:?}): expected an ordinary error, got exit {:?}, stderr {:?}", stdin.map(|s| String::from_utf8_lossy(&s[..s.len().min(80)]).to_string()), o.code, o.stderr);
    assert!(!o.stderr.is_empty(), "{args:?}: no error message");
    assert!(!o.stderr.contains("panicked"), "{args:?}: panic message: {}", o.stderr);
    assert!(o.stdout.is_empty(), "{args:?}: output despite error: {:?}", o.stdout);
}
fn key(mnemonic: &str, pw: &str, path: &str) -> PrivateKey {
    hdk::derive(mnemonic.parse::<Mnemonic>().unwrap().seed(pw), &path.parse().unwrap()).unwrap()
}
fn recover(digest: &str, sig: &str) -> String {
    let d = hex::decode(digest.trim_start_matches("0x")).unwrap();
    let s = hex::decode(sig.trim_start_matches("0x")).unwrap();
    assert_eq!(s.len(), 65, "signature text {sig:?}");
    assert!(s[64] == 27 || s[64] == 28, "v of {sig:?}");
    let ks = KSig::from_slice(&s[..64]).unwrap();
    assert!(ks.normalize_s().is_none(), "signature {sig:?} is not low-s");
    let vk = VerifyingKey::recover_from_prehash(&d, &ks, RecoveryId::from_byte(s[64] - 27).unwrap()).unwrap();
    format!("0x{}", hex::encode(vk.to_encoded_point(false).as_bytes()))
}

/// bound: 2 mnemonics x 3 passphrases x {default, indices 0,1,7,2147483647, 3 explicit paths}; flags vs environment
#[test]
fn nb_cli_account_commands() {
    let mut cases = 0u64;
    for m in [GANACHE, OTHER] {
        for pw in ["", "pw", "p\u{e4}ss w\u{f6}rd"] {
            let mut selectors: Vec<(Vec<String>, Vec<(String, String)>, String)> = vec![(vec![], vec![], "m/44'/60'/0'/0/0".into())];
            for i in [0u32, 1, 7, 2147483647] {
                selectors.push((vec!["--account-index".into(), i.to_string()], vec![("ACCOUNT_INDEX".into(), i.to_string())], format!("m/44'/60'/0'/0/{i}")));
            }
            for p in ["m/44'/60'/0'/0/3", "m/0", "m/1'/2/3'"] {
                selectors.push((vec!["--hd-path".into(), p.into()], vec![("HD_PATH".into(), p.into())], p.into()));
            }
            for (flags, envs, path) in selectors {
                let k = key(m, pw, &path);
                let want = [
                    ("address", k.address().to_string()),
                    ("export", format!("0x{}", hex::encode(k.secret()))),
                    ("public-key", format!("0x{}", hex::encode(k.public().encode_uncompressed()))),
                ];
                for (cmd, expect) in want {
                    let mut a: Vec<&str> = vec![cmd, "--mnemonic", m, "--password", pw];
                    a.extend(flags.iter().map(String::as_str));
                    assert_eq!(ok(&a, &[], None), expect, "{cmd} {flags:?} pw {pw:?}");
                    let mut e: Vec<(&str, &str)> = vec![("MNEMONIC", m), ("PASSWORD", pw)];
                    e.extend(envs.iter().map(|(k, v)| (k.as_str(), v.as_str())));
                    assert_eq!(ok(&[cmd], &e, None), expect, "{cmd} via environment {envs:?} pw {pw:?}");
                    cases += 2;
                }
            }
        }
    }
    // one mnemonic, every account index 0..=40 and 486 (keys with leading zero nibbles / bytes occur among them: 13, 486)
    for i in (0..=40usize).chain([486]) {
        let k = key(GANACHE, "", &format!("m/44'/60'/0'/0/{i}"));
        let idx = i.to_string();
        let secret = format!("0x{}", hex::encode(k.secret()));
        assert_eq!(secret.len(), 66);
        assert_eq!(ok(&["export", "--mnemonic", GANACHE, "--account-index", &idx], &[], None), secret, "export --account-index {i}");
        assert_eq!(ok(&["public-key", "--mnemonic", GANACHE, "--account-index", &idx], &[], None), format!("0x{}", hex::encode(k.public().encode_uncompressed())), "public-key --account-index {i}");
        assert_eq!(ok(&["address", "--mnemonic", GANACHE, "--account-index", &idx], &[], None), k.address().to_string(), "address --account-index {i}");
        cases += 3;
    }
    // an invalid selector is an error for every command, never a silent fallback to another account
    for cmd in ["address", "export", "public-key"] {
        for bad in ["44'/60'/0'/0/1", "m/44'/60'/0'/0/x", "m/44'/60'/0'/0/2147483648", "m/44'/60'/0'/0/1 ", "", "m/", "m/0''"] {
            ordinary_error(&[cmd, "--mnemonic", GANACHE, "--hd-path", bad], &[], None);
            ordinary_error(&[cmd], &[("MNEMONIC", GANACHE), ("HD_PATH", bad)], None);
            cases += 2;
        }
        for bad in ["2147483648", "4294967296", "-1"] {
            ordinary_error(&[cmd, "--mnemonic", GANACHE, "--account-index", bad], &[], None);
            cases += 1;
        }
    }
    // address is EIP-55 (ganache vector) and the two selectors cannot be combined
    assert_eq!(ok(&["address"], &[("MNEMONIC", GANACHE)], None), "0x90F8bf6A479f320ead074411a4B0e7944Ea8c9C1");
    ordinary_error(&["address", "--mnemonic", GANACHE, "--account-index", "1", "--hd-path", "m/0"], &[], None);
    ordinary_error(&["address", "--account-index", "1"], &[("MNEMONIC", GANACHE), ("HD_PATH", "m/0")], None);
    println!("VERIF-NATIVE-CASES nb_cli_account_commands {cases}");
}

const LEGACY: &str = r#"{"chainId":1,"nonce":66,"gasPrice":42000000000,"gas":30000,"to":"0xdeadbeefdeadbeefdeadbeefdeadbeefdeadbeef","value":"13370000000000000000","data":"0x"}"#;
const LEGACY_NOCHAIN: &str = r#"{"nonce":0,"gasPrice":0,"gas":21000,"to":null,"value":0,"data":"0x00"}"#;
const EIP2930: &str = r#"{"chainId":"0xff","nonce":1,"gasPrice":1,"gas":21000,"value":0,"data":"0x0102","accessList":[["0xde0b295669a9fd93d5f28d9ec85e40f4cb697bae",["0x0000000000000000000000000000000000000000000000000000000000000003"]]]}"#;
const EIP1559: &str = r#"{"chainId":1,"nonce":0,"maxPriorityFeePerGas":1,"maxFeePerGas":2,"gas":21000,"to":"0x0000000000000000000000000000000000000000","value":0,"data":"0x"}"#;
const TYPED: &str = r#"{"types":{"EIP712Domain":[{"name":"name","type":"string"},{"name":"chainId","type":"uint256"}],"Mail":[{"name":"to","type":"address"},{"name":"n","type":"int8"},{"name":"tags","type":"bytes2[]"}]},"primaryType":"Mail","domain":{"name":"x","chainId":1},"message":{"to":"0xbBbBBBBbbBBBbbbBbbBbbbbBBbBbbbbBbBbbBBbB","n":-128,"tags":["0x0102","0xffff"]}}"#;

/// bound: 3 account selectors x {message (3 payloads incl. empty and non-UTF-8), 4 transactions, typed data, raw}
#[test]
fn nb_cli_sign_hash_pairing() {
    let mut cases = 0u64;
    for (sel, path) in [(vec![], "m/44'/60'/0'/0/0"), (vec!["--account-index", "5"], "m/44'/60'/0'/0/5"), (vec!["--hd-path", "m/7'/8"], "m/7'/8")] {
        let pk = format!("0x{}", hex::encode(key(GANACHE, "", path).public().encode_uncompressed()));
        // account options belong to the `sign` command and precede its subcommand
        let with = |a: &[&str]| -> Vec<String> { [a[0].to_string(), "--mnemonic".to_string(), GANACHE.to_string()].into_iter().chain(sel.iter().map(|s| s.to_string())).chain(a[1..].iter().map(|s| s.to_string())).collect() };
        let sign = |a: &[&str], stdin: &[u8]| {
            let v = with(a);
            ok(&v.iter().map(String::as_str).collect::<Vec<_>>(), &[], Some(stdin))
        };
        for msg in [&b""[..], b"hello world!", &[0xff, 0xfe, 0x00, 0x80][..]] {
            let sig = sign(&["sign", "message", "-"], msg);
            let digest = ok(&["hash", "message", "-"], &[], Some(msg));
            assert_eq!(recover(&digest, &sig), pk, "sign message / hash message");
            cases += 1;
        }
        for tx in [LEGACY, EIP2930, EIP1559] {
            let digest = ok(&["hash", "transaction", "-"], &[], Some(tx.as_bytes()));
            assert_eq!(digest, serde_json::from_str::<Transaction>(tx).unwrap().signing_message().to_string());
            let sig = sign(&["sign", "transaction", "--signature-only", "-"], tx.as_bytes());
            assert_eq!(recover(&digest, &sig), pk, "sign transaction --signature-only / hash transaction");
            let raw = sign(&["sign", "transaction", "-"], tx.as_bytes());
            let signed_hash = ok(&["hash", "transaction", "--signature", &sig, "-"], &[], Some(tx.as_bytes()));
            assert_eq!(signed_hash, Digest::of(hex::decode(&raw[2..]).unwrap()).to_string(), "hash --signature == keccak(sign output)");
            assert_eq!(ok(&["hash", "transaction", "--signature", &sig[2..], "-"], &[], Some(tx.as_bytes())), signed_hash, "signature without 0x");
            cases += 1;
        }
        // replay protection guard
        {
            // refused in both output modes unless the override flag is given
            for flags in [&["sign", "transaction", "-"][..], &["sign", "transaction", "--signature-only", "-"][..]] {
                let v = with(flags);
                ordinary_error(&v.iter().map(String::as_str).collect::<Vec<_>>(), &[], Some(LEGACY_NOCHAIN.as_bytes()));
            }
            let sig = sign(&["sign", "transaction", "--signature-only", "--allow-missing-relay-protection", "-"], LEGACY_NOCHAIN.as_bytes());
            assert!(sig.ends_with("1b") || sig.ends_with("1c"));
            let raw = sign(&["sign", "transaction", "--allow-missing-relay-protection", "-"], LEGACY_NOCHAIN.as_bytes());
            let tx = serde_json::from_str::<Transaction>(LEGACY_NOCHAIN).unwrap();
            assert_eq!(raw, format!("0x{}", hex::encode(tx.encode(sig.parse().unwrap()))));
            cases += 1;
        }
        let td = serde_json::from_str::<TypedData>(TYPED).unwrap();
        let digest = ok(&["hash", "typeddata", "-"], &[], Some(TYPED.as_bytes()));
        assert_eq!(digest, td.signing_message().to_string());
        assert_eq!(ok(&["hash", "typeddata", "--message-hash", "-"], &[], Some(TYPED.as_bytes())), td.message_hash().to_string());
        assert_eq!(recover(&digest, &sign(&["sign", "typeddata", "-"], TYPED.as_bytes())), pk, "sign typeddata / hash typeddata");
        let raw_digest = "0x00112233445566778899aabbccddeeff00112233445566778899aabbccddeeff";
        assert_eq!(recover(raw_digest, &sign(&["sign", "raw", raw_digest], b"")), pk, "sign raw signs the digest as is");
        cases += 3;
    }
    for data in [&b""[..], b"abc", &[0u8; 1000][..]] {
        assert_eq!(ok(&["hash", "data", "-"], &[], Some(data)), Digest::of(data).to_string(), "hash data");
        cases += 1;
    }
    println!("VERIF-NATIVE-CASES nb_cli_sign_hash_pairing {cases}");
}

/// bound: the listed malformed inputs (one per parser named in C17): ordinary error, never exit 101 / signal / hang
#[test]
fn nb_cli_malformed_inputs_are_ordinary_errors() {
    let mut cases = 0u64;
    let w = |n: usize| vec!["abandon"; n].join(" ");
    for n in [0usize, 1, 11, 13, 14, 16, 17, 19, 20, 22, 23, 25, 40] {
        ordinary_error(&["address", "--mnemonic", &w(n)], &[], None);
        cases += 1;
    }
    ordinary_error(&["address", "--mnemonic", &format!("{} zzzz", w(11))], &[], None);
    for idx in ["2147483648", "4294967295", "4294967296", "18446744073709551615", "18446744073709551616", "-1", "1.5", "x"] {
        ordinary_error(&["address", "--mnemonic", GANACHE, "--account-index", idx], &[], None);
        cases += 1;
    }
    for p in ["", "m", "m/", "44'/60'", "m//1", "m/1/", "m/2147483648", "m/2147483648'", "m/4294967296", "m/-1", "m/1.5", "m/a", "m/1''"] {
        ordinary_error(&["address", "--mnemonic", GANACHE, "--hd-path", p], &[], None);
        cases += 1;
    }
    let z = "00".repeat(32);
    let one = format!("{}01", "00".repeat(31));
    let n = "fffffffffffffffffffffffffffffffebaaedce6af48a03bbfd25e8cd0364141";
    let f = "ff".repeat(32);
    for sig in [format!("{z}{one}1b"), format!("{one}{z}1b"), format!("{n}{one}1b"), format!("{one}{n}1c"), format!("{f}{f}1b"), format!("{one}{one}1a"), format!("{one}{one}1d"), format!("0x{one}{one}"), format!("{one}{one}1"), "zz".repeat(65), String::new(), "0x".into()] {
        ordinary_error(&["hash", "transaction", "--signature", &sig, "-"], &[], Some(LEGACY.as_bytes()));
        cases += 1;
    }
    for d in ["", "0x", "0x00", "zz", &"00".repeat(33)] {
        ordinary_error(&["sign", "--mnemonic", GANACHE, "raw", d], &[], None);
        cases += 1;
    }
    let tx = |field: &str, v: &str| LEGACY.replacen(&format!("\"{field}\":"), &format!("\"{field}\":{v},\"_x\":"), 1);
    for (field, v) in [("nonce", "-1"), ("nonce", "1.5"), ("nonce", "\"\""), ("nonce", "\"-1\""), ("nonce", "\"0x\""), ("nonce", "1e100"),
                       ("nonce", "\"115792089237316195423570985008687907853269984665640564039457584007913129639936\""),
                       ("chainId", "\"0x8000000000000000000000000000000000000000000000000000000000000000\""),
                       ("chainId", "\"0xffffffffffffffffffffffffffffffffffffffffffffffffffffffffffffffff\""),
                       ("chainId", "-1"), ("data", "\"00\""), ("data", "\"0x0\""), ("data", "\"0xzz\""), ("to", "\"0x00\""), ("gas", "null"), ("gas", "[]")] {
        ordinary_error(&["sign", "--mnemonic", GANACHE, "transaction", "-"], &[], Some(tx(field, v).as_bytes()));
        ordinary_error(&["hash", "transaction", "-"], &[], Some(tx(field, v).as_bytes()));
        cases += 2;
    }
    for doc in ["", "{", "[]", "null", "{}", &"[".repeat(200)] {
        ordinary_error(&["hash", "transaction", "-"], &[], Some(doc.as_bytes()));
        ordinary_error(&["hash", "typeddata", "-"], &[], Some(doc.as_bytes()));
        cases += 2;
    }
    // typed data: type strings with up to 64 array suffixes, ill-typed values
    let typed = |ty: &str, v: &str| format!(r#"{{"types":{{"EIP712Domain":[{{"name":"name","type":"string"}}],"M":[{{"name":"x","type":"{ty}"}}]}},"primaryType":"M","domain":{{"name":"d"}},"message":{{"x":{v}}}}}"#);
    let deep_ty = format!("uint8{}", "[]".repeat(64));
    let deep_v = format!("{}1{}", "[".repeat(64), "]".repeat(64));
    assert_eq!(run(&["hash", "typeddata", "-"], &[], Some(typed(&deep_ty, &deep_v).as_bytes())).code, Some(0), "64 array suffixes");
    for (ty, v) in [("uint8", "256"), ("uint8", "-1"), ("int8", "128"), ("int8", "-129"), ("bytes2", "\"0x01\""), ("bytes2", "\"0x010203\""), ("uint8[2]", "[1]"), ("uint8[2]", "[1,2,3]"),
                    ("N", "{}"), ("bool", "1"), ("address", "\"0x00\""), ("string", "1"), ("bytes", "\"zz\""), ("uint8[]", "{}"), (&deep_ty, "1"), ("uint8[", "1"), ("uint8]", "1"), ("[]", "[]"), ("", "1"),
                    ("uint8[18446744073709551616]", "[]"), ("bytes33", "\"0x00\""), ("uint7", "1"), ("int264", "1")] {
        ordinary_error(&["hash", "typeddata", "-"], &[], Some(typed(ty, v).as_bytes()));
        ordinary_error(&["sign", "--mnemonic", GANACHE, "typeddata", "-"], &[], Some(typed(ty, v).as_bytes()));
        cases += 2;
    }
    for h in ["0", "0x0", "zz", "0x0g", "0 1 2"] {
        ordinary_error(&["hex", "decode", "-"], &[], Some(h.as_bytes()));
        cases += 1;
    }
    ordinary_error(&["hex", "decode", "-"], &[], Some(&[0xff, 0xfe]));
    for p in ["", "0", "1x", "0xg", "0x0g", "A", "0x-1", "0x 1"] {
        ordinary_error(&["new", "-j", "0", "--vanity-prefix", p], &[], None);
        cases += 1;
    }
    for n in ["0", "1", "11", "13", "14", "16", "17", "19", "20", "22", "23", "25", "40", "18446744073709551616", "-1", "x"] {
        ordinary_error(&["new", "-n", n], &[], None);
        cases += 1;
    }
    ordinary_error(&["new", "--language", "klingon"], &[], None);
    // unreadable input (non-existent file, directory) for every command that reads one
    for path in ["/nonexistent/verif-input", "/"] {
        for sub in ["message", "transaction", "typeddata"] {
            ordinary_error(&["sign", "--mnemonic", GANACHE, sub, path], &[], None);
            ordinary_error(&["hash", sub, path], &[], None);
            cases += 2;
        }
        ordinary_error(&["hash", "data", path], &[], None);
        ordinary_error(&["hex", "encode", path], &[], None);
        ordinary_error(&["hex", "decode", path], &[], None);
        cases += 3;
    }
    println!("VERIF-NATIVE-CASES nb_cli_malformed_inputs_are_ordinary_errors {cases}");
}

/// bound: all 16 single digits in lower case and A-F in upper case, four 2-digit mixed-case prefixes and one 3-digit prefix;
/// thread counts 0, 1, 2, 16; with and without vanity password / account index / path; lengths 12 and 15; 2 repetitions each
#[test]
fn nb_cli_vanity_search() {
    let mut cases = 0u64;
    let mut prefixes: Vec<String> = "0123456789abcdefABCDEF".chars().map(|c| c.to_string()).collect();
    prefixes.extend(["aB", "Cd", "0f", "F0", "a1C"].map(String::from));
    let configs: [(&[&str], &str, &str); 4] = [
        (&[], "", "m/44'/60'/0'/0/0"),
        (&["--vanity-password", "pw"], "pw", "m/44'/60'/0'/0/0"),
        (&["--vanity-account-index", "3"], "", "m/44'/60'/0'/0/3"),
        (&["--vanity-hd-path", "m/1'/2"], "", "m/1'/2"),
    ];
    for (pi, prefix) in prefixes.iter().enumerate() {
        for (ti, threads) in ["0", "1", "2", "16"].iter().enumerate() {
            let (extra, pw, path) = configs[(pi + ti) % 4];
            let n = if (pi + ti) % 2 == 0 { 12 } else { 15 };
            for _rep in 0..(if prefix.len() == 1 { 2 } else { 1 }) {
                let ns = n.to_string();
                let px = format!("0x{prefix}");
                let mut a = vec!["new", "-n", &ns, "-j", threads, "--vanity-prefix", &px];
                a.extend_from_slice(extra);
                let phrase = ok(&a, &[], None);
                let m = phrase.parse::<Mnemonic>().unwrap_or_else(|e| panic!("vanity output {phrase:?} is not a mnemonic: {e}"));
                assert_eq!(m.mnemonic_length(), n, "vanity phrase length");
                let addr = hex::encode(*key(&phrase, pw, path).address());
                assert!(addr.starts_with(&prefix.to_lowercase()), "prefix {px} threads {threads} {extra:?}: address 0x{addr} of {phrase:?}");
                cases += 1;
            }
        }
    }
    println!("VERIF-NATIVE-CASES nb_cli_vanity_search {cases}");
}

/// bound: hex encode / decode through the real binary: 8 byte strings (empty, NUL, all 256 values, trailing newline, 5000
/// bytes) via stdin and via a file; 8 multi-line / whitespace layouts; 9 malformed inputs (error on a later line, digit
/// pair completing an odd count, prefix in the middle, repeated prefix): no output at all
#[test]
fn nb_cli_hex_commands() {
    let mut cases = 0u64;
    let dir = std::env::temp_dir().join(format!("verif-hex-{}", std::process::id()));
    std::fs::create_dir_all(&dir).unwrap();
    let inputs: Vec<Vec<u8>> = vec![vec![], vec![0], vec![0, 0, 0], (0..=255u8).collect(), b"abc\n".to_vec(), b"\n".to_vec(), vec![0xff, 0xfe, 0x00, 0x80, b'\n'], (0..5000usize).map(|i| (i * 31 + 7) as u8).collect()];
    for (n, bytes) in inputs.iter().enumerate() {
        let want = format!("0x{}", hex::encode(bytes));
        let o = run(&["hex", "encode", "-"], &[], Some(bytes));
        assert_eq!((o.code, o.stdout.as_str()), (Some(0), want.as_str()), "hex encode of input {n}");
        let f = dir.join(format!("in{n}"));
        std::fs::write(&f, bytes).unwrap();
        assert_eq!(ok(&["hex", "encode", f.to_str().unwrap()], &[], None), want, "hex encode from a file, input {n}");
        // decode(encode(b)) == b, byte for byte (raw stdout)
        let mut c = Command::new(BIN);
        c.args(["hex", "decode", "-"]).stdin(Stdio::piped()).stdout(Stdio::piped()).stderr(Stdio::piped());
        let mut p = c.spawn().unwrap();
        p.stdin.take().unwrap().write_all(format!("{want}\n").as_bytes()).unwrap();
        let out = p.wait_with_output().unwrap();
        assert!(out.status.success() && out.stdout == *bytes, "hex decode(encode(input {n}))");
        cases += 3;
    }
    let raw_decode = |text: &str| -> (Option<i32>, Vec<u8>) {
        let mut c = Command::new(BIN);
        c.args(["hex", "decode", "-"]).stdin(Stdio::piped()).stdout(Stdio::piped()).stderr(Stdio::piped());
        let mut p = c.spawn().unwrap();
        p.stdin.take().unwrap().write_all(text.as_bytes()).unwrap();
        let out = p.wait_with_output().unwrap();
        (out.status.code(), out.stdout)
    };
    for layout in ["0xdeadbeef", "deadbeef\n", "0xde\nad\nbe\nef\n", "0xdeadb\neef\n", "de ad\tbe\r\nef", "0x\nDEADBEEF", " 0 x d e a d b e e f ", "0xde\u{a0}ad\u{3000}be\u{b}ef"] {
        assert_eq!(raw_decode(layout), (Some(0), vec![0xde, 0xad, 0xbe, 0xef]), "hex decode layout {layout:?}");
        cases += 1;
    }
    for bad in ["0xdead\nbeZf\n", "dead\nbee\n", "0xdead\n0xbeef\n", "0x0x", "0x0xdead", "dead\n\nbeef0", "0xde,ad", "deadbeefg", "0xdeadbee"] {
        let (code, out) = raw_decode(bad);
        assert!(matches!(code, Some(c) if c != 0 && c != 101) && out.is_empty(), "hex decode of malformed {bad:?}: exit {code:?}, {} bytes of output", out.len());
        cases += 1;
    }
    let _ = std::fs::remove_dir_all(&dir);
    println!("VERIF-NATIVE-CASES nb_cli_hex_commands {cases}");
}
