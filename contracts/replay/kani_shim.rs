// Native stand-in for the `kani` crate used by replays (spliced in as `mod kani` inside the nativized
// harness module).  `any()` pops the verifier's concrete values in call order, exactly like
// kani::concrete_playback_run does; `assume` failing means the concrete values do not satisfy the
// harness precondition natively (reported, never counted as a reproduction).
use std::cell::RefCell;
thread_local! { static VALS: RefCell<std::collections::VecDeque<Vec<u8>>> = RefCell::new(Default::default()); }
pub fn load(v: Vec<Vec<u8>>) { VALS.with(|q| *q.borrow_mut() = v.into_iter().collect()); }
fn next(n: usize) -> Vec<u8> {
    VALS.with(|q| q.borrow_mut().pop_front()).map(|mut v| { v.resize(n, 0); v }).unwrap_or_else(|| vec![0; n])
}
pub trait Arbitrary: Sized { fn any() -> Self; }
macro_rules! prim { ($($t:ty),*) => {$( impl Arbitrary for $t { fn any() -> Self { let b = next(std::mem::size_of::<$t>()); <$t>::from_le_bytes(b.try_into().unwrap()) } } )*} }
prim!(u8, u16, u32, u64, u128, usize, i8, i16, i32, i64, i128, isize, f32, f64);
impl Arbitrary for bool { fn any() -> Self { let b = u8::any(); assume(b < 2); b == 1 } }
impl Arbitrary for char { fn any() -> Self { let c = u32::any(); match char::from_u32(c) { Some(c) => c, None => { assume(false); ' ' } } } }
impl<T: Arbitrary, const N: usize> Arbitrary for [T; N] { fn any() -> Self { std::array::from_fn(|_| T::any()) } }
impl<T: Arbitrary> Arbitrary for Option<T> { fn any() -> Self { if bool::any() { Some(T::any()) } else { None } } }
impl Arbitrary for () { fn any() -> Self {} }
pub fn any<T: Arbitrary>() -> T { T::any() }
pub fn any_where<T: Arbitrary, F: FnOnce(&T) -> bool>(f: F) -> T { let v = T::any(); assume(f(&v)); v }
pub fn assume(c: bool) { if !c { panic!("VERIF-ASSUME-VIOLATED"); } }
#[allow(unused_macros)]
macro_rules! cover { ($($t:tt)*) => {}; }
pub(crate) use cover;
