// Verus unit for C07: src/transaction/rlp.rs::{len, bytes, uint, list} against the
// Yellow-Paper RLP definition.  Function bodies are spliced in from /repo by
// tools/extract.py on every run (directive blocks `//@@ fn … //@@ end`).
use vstd::prelude::*;
verus! {
global size_of usize == 8;

// ---------- spec vocabulary (DESIGN.md section 4) ----------
pub open spec fn be_min(n: nat) -> Seq<u8> decreases n {
    if n == 0 { Seq::<u8>::empty() } else { be_min(n / 256).push((n % 256) as u8) }
}
pub open spec fn be_fix(n: nat, k: nat) -> Seq<u8> decreases k {
    if k == 0 { Seq::<u8>::empty() } else { be_fix(n / 256, (k - 1) as nat).push((n % 256) as u8) }
}
pub open spec fn bitlen(n: nat) -> nat decreases n {
    if n == 0 { 0 } else { 1 + bitlen(n / 2) }
}
pub open spec fn pow2(k: nat) -> nat decreases k { if k == 0 { 1 } else { 2 * pow2((k - 1) as nat) } }

// Yellow Paper (appendix B): length header for a payload of n bytes
pub open spec fn hdr(n: nat, off: u8) -> Seq<u8> {
    if n < 56 { seq![(off + n) as u8] } else { seq![(off + 55 + be_min(n).len()) as u8] + be_min(n) }
}
pub open spec fn enc_str(b: Seq<u8>) -> Seq<u8> {
    if b.len() == 1 && b[0] < 0x80 { b } else { hdr(b.len(), 0x80) + b }
}
pub open spec fn enc_uint(v: nat) -> Seq<u8> { enc_str(be_min(v)) }
pub open spec fn flat(items: Seq<&[u8]>) -> Seq<u8> decreases items.len() {
    if items.len() == 0 { Seq::<u8>::empty() } else { flat(items.drop_last()) + items.last()@ }
}
pub open spec fn total(items: Seq<&[u8]>) -> nat decreases items.len() {
    if items.len() == 0 { 0 } else { total(items.drop_last()) + items.last()@.len() }
}
pub open spec fn enc_list(items: Seq<&[u8]>) -> Seq<u8> { hdr(total(items), 0xc0) + flat(items) }

// ---------- lemmas ----------
proof fn lemma_bitlen_256(n: nat)
    requires n >= 256
    ensures bitlen(n) == 8 + bitlen(n / 256)
{
    assert(n / 2 / 2 / 2 / 2 / 2 / 2 / 2 / 2 == n / 256) by (nonlinear_arith);
    reveal_with_fuel(bitlen, 9);
    assert(n/2 >= 1 && n/2/2 >= 1 && n/2/2/2 >= 1 && n/2/2/2/2 >= 1 && n/2/2/2/2/2 >= 1 && n/2/2/2/2/2/2 >= 1 && n/2/2/2/2/2/2/2 >= 1) by (nonlinear_arith) requires n >= 256;
}
proof fn lemma_bitlen_small(n: nat)
    requires 1 <= n < 256
    ensures 1 <= bitlen(n) <= 8
{
    reveal_with_fuel(bitlen, 10);
}
proof fn lemma_len_vs_bits(n: nat)
    ensures
        n == 0 ==> be_min(n).len() == 0 && bitlen(n) == 0,
        n > 0 ==> 8 * (be_min(n).len() - 1) < bitlen(n) <= 8 * be_min(n).len(),
    decreases n
{
    if n == 0 {
    } else if n < 256 {
        lemma_bitlen_small(n);
        assert(n / 256 == 0);
        reveal_with_fuel(be_min, 2);
    } else {
        lemma_bitlen_256(n);
        lemma_len_vs_bits(n / 256);
    }
}
proof fn lemma_fix_len(n: nat, k: nat) ensures be_fix(n, k).len() == k decreases k {
    if k > 0 { lemma_fix_len(n / 256, (k - 1) as nat); }
}
proof fn lemma_fix_skip(n: nat, k: nat)
    requires be_min(n).len() <= k
    ensures be_fix(n, k).len() == k, be_fix(n, k).skip(k - be_min(n).len()) == be_min(n)
    decreases k
{
    if k == 0 {
        assert(be_fix(n, k).skip(0) =~= be_min(n));
    } else if n == 0 {
        lemma_fix_len(n, k);
        assert(be_fix(n, k).skip(k as int) =~= Seq::<u8>::empty());
    } else {
        lemma_fix_skip(n / 256, (k - 1) as nat);
        let a = be_fix(n / 256, (k - 1) as nat);
        let m = be_min(n / 256);
        let d = (k - 1) - m.len();
        assert(a.push((n % 256) as u8).skip(d) =~= a.skip(d).push((n % 256) as u8));
    }
}
proof fn lemma_bitlen_bound(n: nat, k: nat)
    requires n < pow2(k)
    ensures bitlen(n) <= k
    decreases k
{
    if n == 0 {} else {
        assert(k > 0);
        lemma_bitlen_bound(n / 2, (k - 1) as nat);
    }
}
proof fn lemma_bitlen_le64(n: nat)
    requires n <= usize::MAX
    ensures bitlen(n) <= 64
{
    assert(pow2(64) == 0x1_0000_0000_0000_0000) by (compute);
    lemma_bitlen_bound(n, 64);
}
// the two arithmetic facts the bodies of `len` and `uint` rely on, for a W-bit word (W = 8k)
proof fn lemma_strip(n: nat, k: nat)
    requires n < pow2(8 * k), k >= 1
    ensures
        be_min(n).len() <= k,
        (8 * k - bitlen(n)) / 8 == k - be_min(n).len(),
        be_fix(n, k).len() == k,
        be_fix(n, k).skip(k - be_min(n).len()) == be_min(n),
{
    lemma_len_vs_bits(n);
    lemma_bitlen_bound(n, 8 * k);
    lemma_fix_skip(n, k);
}

// ---------- dependency / std interface contracts (ASSUMED here; cross-checked on the real
// usize / ethnum code by complete Kani harnesses xc_* in contracts/kani/src/transaction/rlp.rs) ----------
#[verifier::external_body]
pub fn shim_usize_to_be_bytes(x: usize) -> (r: [u8; 8])
    ensures r@ == be_fix(x as nat, 8)
{ x.to_be_bytes() }

pub assume_specification[ usize::leading_zeros ](x: usize) -> (r: u32)
    ensures r == 64 - bitlen(x as nat);

#[verifier::external_body]
pub struct U256 { _w: [u64; 4] }
impl U256 {
    pub uninterp spec fn view(&self) -> nat;
    #[verifier::external_body]
    pub fn leading_zeros(self) -> (r: u32)
        ensures r == 256 - bitlen(self@), self@ < pow2(256)
    { unimplemented!() }
    #[verifier::external_body]
    pub fn to_be_bytes(self) -> (r: [u8; 32])
        ensures r@ == be_fix(self@, 32)
    { unimplemented!() }
}
impl Clone for U256 { #[verifier::external_body] fn clone(&self) -> (r: Self) ensures r@ == self@ { unimplemented!() } }
impl Copy for U256 {}

#[verifier::external_body]
pub fn shim_sum_lens(items: &[&[u8]]) -> (r: usize)
    requires total(items@) <= usize::MAX
    ensures r == total(items@)
{ items.iter().map(|item| item.len()).sum() }

//@@ fn src/transaction/rlp.rs::len
//@@   rename rlp_len
//@@   ret out
//@@   requires offset == 0x80 || offset == 0xc0
//@@   ensures out@ == hdr(len as nat, offset)
//@@   rewrite R2 /(\b\w+)\.to_be_bytes\(\)/ => shim_usize_to_be_bytes(\1)
//@@   prologue assert(pow2(64) == 0x1_0000_0000_0000_0000) by (compute);
//@@   prologue lemma_strip(len as nat, 8);
//@@   epilogue assert(out@ =~= hdr(len as nat, offset));
//@@ end

//@@ fn src/transaction/rlp.rs::bytes
//@@   rename rlp_bytes
//@@   ret out
//@@   ensures out@ == enc_str(bytes@)
//@@   rewrite R1 /(?<![\w.])len\(/ => rlp_len(
//@@   rewrite R3 /match\s+(\w+)\s*\{\s*\[(\w+)\]\s+if\s+(.*?)\s*=>\s*(.*?),\s*_\s*=>\s*\{(.*)\}\s*\}/ => if \1.len() == 1 && { let \2 = &\1[0]; \3 } { let \2 = &\1[0]; \4 } else {\5}
//@@   epilogue assert(out@ =~= enc_str(bytes@));
//@@ end

//@@ fn src/transaction/rlp.rs::uint
//@@   ret out
//@@   ensures out@ == enc_uint(value@)
//@@   rewrite R1 /(?<![\w.])bytes\(/ => rlp_bytes(
//@@   prologue if value@ < pow2(256) { lemma_strip(value@, 32); }
//@@ end

//@@ fn src/transaction/rlp.rs::list
//@@   ret out
//@@   requires total(items@) <= usize::MAX
//@@   ensures out@ == enc_list(items@)
//@@   rewrite R1 /(?<![\w.])len\(/ => rlp_len(
//@@   rewrite R4 /(\w+)\.iter\(\)\.map\(\|item\| item\.len\(\)\)\.sum\(\)/ => shim_sum_lens(\1)
//@@   loop 0 it
//@@   inv buf@ == hdr(total(items@), 0xc0) + flat(items@.take(it.index as int))
//@@   loopbody 0 let i = it.index as int; assert(items@.take(i + 1).drop_last() =~= items@.take(i)); assert(items@.take(i + 1).last() == items@[i]);
//@@   epilogue assert(items@.take(items@.len() as int) =~= items@);
//@@ end

} // verus!
fn main() {}
