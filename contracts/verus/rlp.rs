// Verus unit for C07: src/transaction/rlp.rs::{len, bytes, uint, list} against the
// Yellow-Paper RLP definition.  Function bodies are spliced in from /repo by
// tools/extract.py on every run (directive blocks `//@@ fn … //@@ end`).
use vstd::prelude::*;
verus! {
global size_of usize == 8;

// ---------- spec vocabulary (DESIGN.md section 4) ----------
pub open spec fn be_min(n: nat) -> Seq<u8> decreases n {
    if n == 0 { Seq::<u8>::empty() } else { be_min(n / 256).push((n % 256) as u8) }
}
pub open spec fn be_fix(n: nat, k: nat) -> Seq<u8> decreases k {
    if k == 0 { Seq::<u8>::empty() } else { be_fix(n / 256, (k - 1) as nat).push((n % 256) as u8) }
}
pub open spec fn bitlen(n: nat) -> nat decreases n {
    if n == 0 { 0 } else { 1 + bitlen(n / 2) }
}
pub open spec fn pow2(k: nat) -> nat decreases k { if k == 0 { 1 } else { 2 * pow2((k - 1) as nat) } }

// Yellow Paper (appendix B): length header for a payload of n bytes
pub open spec fn hdr(n: nat, off: u8) -> Seq<u8> {
    if n < 56 { seq![(off + n) as u8] } else { seq![(off + 55 + be_min(n).len()) as u8] + be_min(n) }
}
pub open spec fn enc_str(b: Seq<u8>) -> Seq<u8> {
    if b.len() == 1 && b[0] < 0x80 { b } else { hdr(b.len(), 0x80) + b }
}
pub open spec fn enc_uint(v: nat) -> Seq<u8> { enc_str(be_min(v)) }
pub open spec fn flat(items: Seq<&[u8]>) -> Seq<u8> decreases items.len() {
    if items.len() == 0 { Seq::<u8>::empty() } else { flat(items.drop_last()) + items.last()@ }
}
pub open spec fn total(items: Seq<&[u8]>) -> nat decreases items.len() {
    if items.len() == 0 { 0 } else { total(items.drop_last()) + items.last()@.len() }
}
pub open spec fn enc_list(items: Seq<&[u8]>) -> Seq<u8> { hdr(total(items), 0xc0) + flat(items) }

// ---------- lemmas ----------
proof fn lemma_bitlen_256(n: nat)
    requires n >= 256
    ensures bitlen(n) == 8 + bitlen(n / 256)
{
    assert(n / 2 / 2 / 2 / 2 / 2 / 2 / 2 / 2 == n / 256) by (nonlinear_arith);
    reveal_with_fuel(bitlen, 9);
    assert(n/2 >= 1 && n/2/2 >= 1 && n/2/2/2 >= 1 && n/2/2/2/2 >= 1 && n/2/2/2/2/2 >= 1 && n/2/2/2/2/2/2 >= 1 && n/2/2/2/2/2/2/2 >= 1) by (nonlinear_arith) requires n >= 256;
}
proof fn lemma_bitlen_small(n: nat)
    requires 1 <= n < 256
    ensures 1 <= bitlen(n) <= 8
{
    reveal_with_fuel(bitlen, 10);
}
proof fn lemma_len_vs_bits(n: nat)
    ensures
        n == 0 ==> be_min(n).len() == 0 && bitlen(n) == 0,
        n > 0 ==> 8 * (be_min(n).len() - 1) < bitlen(n) <= 8 * be_min(n).len(),
    decreases n
{
    if n == 0 {
    } else if n < 256 {
        lemma_bitlen_small(n);
        assert(n / 256 == 0);
        reveal_with_fuel(be_min, 2);
    } else {
        lemma_bitlen_256(n);
        lemma_len_vs_bits(n / 256);
    }
}
proof fn lemma_fix_len(n: nat, k: nat) ensures be_fix(n, k).len() == k decreases k {
    if k > 0 { lemma_fix_len(n / 256, (k - 1) as nat); }
}
proof fn lemma_fix_skip(n: nat, k: nat)
    requires be_min(n).len() <= k
    ensures be_fix(n, k).len() == k, be_fix(n, k).skip(k - be_min(n).len()) == be_min(n)
    decreases k
{
    if k == 0 {
        assert(be_fix(n, k).skip(0) =~= be_min(n));
    } else if n == 0 {
        lemma_fix_len(n, k);
        assert(be_fix(n, k).skip(k as int) =~= Seq::<u8>::empty());
    } else {
        lemma_fix_skip(n / 256, (k - 1) as nat);
        let a = be_fix(n / 256, (k - 1) as nat);
        let m = be_min(n / 256);
        let d = (k - 1) - m.len();
        assert(a.push((n % 256) as u8).skip(d) =~= a.skip(d).push((n % 256) as u8));
    }
}
proof fn lemma_bitlen_bound(n: nat, k: nat)
    requires n < pow2(k)
    ensures bitlen(n) <= k
    decreases k
{
    if n == 0 {} else {
        assert(k > 0);
        lemma_bitlen_bound(n / 2, (k - 1) as nat);
    }
}
proof fn lemma_bitlen_le64(n: nat)
    requires n <= usize::MAX
    ensures bitlen(n) <= 64
{
    assert(pow2(64) == 0x1_0000_0000_0000_0000) by (compute);
    lemma_bitlen_bound(n, 64);
}
// the two arithmetic facts the bodies of `len` and `uint` rely on, for a W-bit word (W = 8k)
proof fn lemma_strip(n: nat, k: nat)
    requires n < pow2(8 * k), k >= 1
    ensures
        be_min(n).len() <= k,
        (8 * k - bitlen(n)) / 8 == k - be_min(n).len(),
        be_fix(n, k).len() == k,
        be_fix(n, k).skip(k - be_min(n).len()) == be_min(n),
{
    lemma_len_vs_bits(n);
    lemma_bitlen_bound(n, 8 * k);
    lemma_fix_skip(n, k);
}

// ---------- spec-level strict decoder for strings and the canonicity lemmas (pure mathematics over the spec
// vocabulary; they turn "output == Yellow-Paper encoding" into the statement's "a strict decoder accepts it,
// consumes it completely and returns the original values") ----------
pub open spec fn be_val(s: Seq<u8>) -> nat decreases s.len() {
    if s.len() == 0 { 0 } else { be_val(s.drop_last()) * 256 + s.last() as nat }
}
/// strict decoder of one RLP *string* item at the head of `s`: Some((payload, rest)), or None when `s` does not start
/// with a canonical string item (rejects: long form for n < 56, length bytes with a leading zero, a wrapped single
/// byte < 0x80, truncated input, list headers)
pub open spec fn dec_str(s: Seq<u8>) -> Option<(Seq<u8>, Seq<u8>)> {
    if s.len() == 0 {
        None
    } else if s[0] < 0x80 {
        Some((s.subrange(0, 1), s.subrange(1, s.len() as int)))
    } else if s[0] <= 0xb7 {
        let n = (s[0] - 0x80) as int;
        if s.len() < 1 + n { None }
        else if n == 1 && s[1] < 0x80 { None }
        else { Some((s.subrange(1, 1 + n), s.subrange(1 + n, s.len() as int))) }
    } else if s[0] <= 0xbf {
        let ll = (s[0] - 0xb7) as int;
        if s.len() < 1 + ll { None }
        else {
            let lb = s.subrange(1, 1 + ll);
            let n = be_val(lb) as int;
            if lb[0] == 0 || n < 56 || s.len() < 1 + ll + n { None }
            else { Some((s.subrange(1 + ll, 1 + ll + n), s.subrange(1 + ll + n, s.len() as int))) }
        }
    } else {
        None
    }
}
/// strict integer decoding of a string payload: rejects a leading zero byte
pub open spec fn dec_uint(p: Seq<u8>) -> Option<nat> {
    if p.len() > 0 && p[0] == 0 { None } else { Some(be_val(p)) }
}

// L3: minimal big-endian bytes decode to the value and have no leading zero
proof fn lemma_be_min_val(n: nat)
    ensures be_val(be_min(n)) == n, n > 0 ==> be_min(n).len() > 0 && be_min(n)[0] != 0,
    decreases n
{
    if n == 0 {
    } else {
        lemma_be_min_val(n / 256);
        let m = be_min(n / 256);
        let d = (n % 256) as u8;
        assert(be_min(n) == m.push(d));
        assert(m.push(d).drop_last() =~= m);
        assert(m.push(d).last() == d);
        if n / 256 > 0 {
            assert(m.push(d)[0] == m[0]);
        } else {
            assert(m.len() == 0);
            assert(n < 256);
            assert(m.push(d)[0] == d);
        }
    }
}
// length of the minimal representation of a 64-bit length is at most 8
proof fn lemma_be_min_len_le8(n: nat)
    requires n <= usize::MAX
    ensures be_min(n).len() <= 8
{
    lemma_len_vs_bits(n);
    lemma_bitlen_le64(n);
}
// L4a: uint payloads never start with 0x00 and decode to the value
proof fn lemma_uint_payload_canonical(v: nat)
    ensures dec_uint(be_min(v)) == Some(v)
{
    lemma_be_min_val(v);
}
// L1 + L4b,c: the strict decoder accepts enc_str(b) followed by anything, returns exactly b and leaves exactly the rest
proof fn lemma_dec_enc_str(b: Seq<u8>, r: Seq<u8>)
    requires b.len() <= usize::MAX
    ensures dec_str(enc_str(b) + r) == Some((b, r))
{
    let e = enc_str(b);
    let s = e + r;
    if b.len() == 1 && b[0] < 0x80 {
        assert(e == b);
        assert(s[0] == b[0]);
        assert(s.subrange(0, 1) =~= b);
        assert(s.subrange(1, s.len() as int) =~= r);
    } else if b.len() < 56 {
        let h = hdr(b.len(), 0x80);
        assert(h.len() == 1);
        assert(e == h + b);
        assert(s[0] == (0x80 + b.len()) as u8);
        let n = b.len() as int;
        if n == 1 {
            assert(s[1] == b[0]);
        }
        assert(s.subrange(1, 1 + n) =~= b);
        assert(s.subrange(1 + n, s.len() as int) =~= r);
    } else {
        let l = be_min(b.len());
        lemma_be_min_val(b.len());
        lemma_be_min_len_le8(b.len());
        let ll = l.len() as int;
        assert(1 <= ll <= 8);
        let h = hdr(b.len(), 0x80);
        assert(h == seq![(0x80 + 55 + l.len()) as u8] + l);
        assert(e == h + b);
        assert(s[0] == (0xb7 + ll) as u8);
        assert(s.subrange(1, 1 + ll) =~= l);
        let n = b.len() as int;
        assert(s.subrange(1 + ll, 1 + ll + n) =~= b);
        assert(s.subrange(1 + ll + n, s.len() as int) =~= r);
    }
}
// corollary: distinct byte strings never share an encoding (injectivity), and no encoding is a proper prefix of another
proof fn lemma_enc_str_injective(a: Seq<u8>, b: Seq<u8>)
    requires a.len() <= usize::MAX, b.len() <= usize::MAX, enc_str(a) == enc_str(b)
    ensures a == b
{
    lemma_dec_enc_str(a, Seq::<u8>::empty());
    lemma_dec_enc_str(b, Seq::<u8>::empty());
}
// corollary for integers: the full round trip value -> enc_uint -> strict decode -> value
proof fn lemma_dec_enc_uint(v: nat, r: Seq<u8>)
    requires v < pow2(256)
    ensures
        dec_str(enc_uint(v) + r) == Some((be_min(v), r)),
        dec_uint(be_min(v)) == Some(v),
{
    lemma_strip(v, 32);
    lemma_dec_enc_str(be_min(v), r);
    lemma_be_min_val(v);
}

// ---------- L2 (flat): lists whose items are strings - the shape of every legacy transaction and of the key list
// of an access-list entry.  A strict decoder reads the list header, then the items one after the other, and must
// consume the payload completely. ----------
pub open spec fn dec_list(s: Seq<u8>) -> Option<(Seq<u8>, Seq<u8>)> {
    if s.len() == 0 || s[0] < 0xc0 {
        None
    } else if s[0] <= 0xf7 {
        let n = (s[0] - 0xc0) as int;
        if s.len() < 1 + n { None } else { Some((s.subrange(1, 1 + n), s.subrange(1 + n, s.len() as int))) }
    } else {
        let ll = (s[0] - 0xf7) as int;
        if s.len() < 1 + ll { None }
        else {
            let lb = s.subrange(1, 1 + ll);
            let n = be_val(lb) as int;
            if lb[0] == 0 || n < 56 || s.len() < 1 + ll + n { None }
            else { Some((s.subrange(1 + ll, 1 + ll + n), s.subrange(1 + ll + n, s.len() as int))) }
        }
    }
}
/// concatenation of the string encodings of bs, front to back
pub open spec fn cat_enc(bs: Seq<Seq<u8>>) -> Seq<u8> decreases bs.len() {
    if bs.len() == 0 { Seq::<u8>::empty() } else { enc_str(bs[0]) + cat_enc(bs.skip(1)) }
}
/// strictly decode string items until `s` is used up (fuel bounds the number of items; every item is >= 1 byte, so
/// fuel = |s| is always enough: dec_all)
pub open spec fn dec_strs(s: Seq<u8>, fuel: nat) -> Option<Seq<Seq<u8>>> decreases fuel {
    if s.len() == 0 {
        Some(Seq::<Seq<u8>>::empty())
    } else if fuel == 0 {
        None
    } else {
        match dec_str(s) {
            None => None,
            Some(br) => match dec_strs(br.1, (fuel - 1) as nat) {
                None => None,
                Some(tail) => Some(seq![br.0] + tail),
            },
        }
    }
}
pub open spec fn dec_all(s: Seq<u8>) -> Option<Seq<Seq<u8>>> { dec_strs(s, s.len()) }

proof fn lemma_enc_str_nonempty(b: Seq<u8>)
    ensures enc_str(b).len() >= 1
{
    if b.len() == 1 && b[0] < 0x80 {} else {
        assert(hdr(b.len(), 0x80).len() >= 1);
    }
}
proof fn lemma_cat_enc_len(bs: Seq<Seq<u8>>)
    ensures cat_enc(bs).len() >= bs.len()
    decreases bs.len()
{
    if bs.len() > 0 {
        lemma_enc_str_nonempty(bs[0]);
        lemma_cat_enc_len(bs.skip(1));
    }
}
proof fn lemma_dec_strs_cat(bs: Seq<Seq<u8>>, fuel: nat)
    requires fuel >= bs.len(), forall|i: int| 0 <= i < bs.len() ==> #[trigger] bs[i].len() <= usize::MAX
    ensures dec_strs(cat_enc(bs), fuel) == Some(bs)
    decreases bs.len()
{
    if bs.len() == 0 {
        assert(cat_enc(bs).len() == 0);
        assert(bs =~= Seq::<Seq<u8>>::empty());
    } else {
        let rest = bs.skip(1);
        assert forall|i: int| 0 <= i < rest.len() implies #[trigger] rest[i].len() <= usize::MAX by {
            assert(rest[i] == bs[i + 1]);
        }
        lemma_dec_strs_cat(rest, (fuel - 1) as nat);
        lemma_dec_enc_str(bs[0], cat_enc(rest));
        lemma_enc_str_nonempty(bs[0]);
        let s = cat_enc(bs);
        assert(s == enc_str(bs[0]) + cat_enc(rest));
        assert(s.len() > 0);
        assert(dec_str(s) == Some((bs[0], cat_enc(rest))));
        assert(seq![bs[0]] + rest =~= bs);
    }
}
// L1 for the list header: the strict decoder splits hdr(|p|, 0xc0) ++ p ++ r into exactly (p, r)
proof fn lemma_dec_list_hdr(p: Seq<u8>, r: Seq<u8>)
    requires p.len() <= usize::MAX
    ensures dec_list(hdr(p.len(), 0xc0) + p + r) == Some((p, r))
{
    let h = hdr(p.len(), 0xc0);
    let s = h + p + r;
    let n = p.len() as int;
    if p.len() < 56 {
        assert(h.len() == 1);
        assert(s[0] == (0xc0 + p.len()) as u8);
        assert(s.subrange(1, 1 + n) =~= p);
        assert(s.subrange(1 + n, s.len() as int) =~= r);
    } else {
        let l = be_min(p.len());
        lemma_be_min_val(p.len());
        lemma_be_min_len_le8(p.len());
        let ll = l.len() as int;
        assert(1 <= ll <= 8);
        assert(h == seq![(0xc0 + 55 + l.len()) as u8] + l);
        assert(s[0] == (0xf7 + ll) as u8);
        assert(s.subrange(1, 1 + ll) =~= l);
        assert(s.subrange(1 + ll, 1 + ll + n) =~= p);
        assert(s.subrange(1 + ll + n, s.len() as int) =~= r);
    }
}
// the back-to-front `flat` used by the contract of rlp::list is the front-to-back concatenation
pub open spec fn views(items: Seq<&[u8]>) -> Seq<Seq<u8>> { Seq::new(items.len(), |i: int| items[i]@) }
pub open spec fn cat(xs: Seq<Seq<u8>>) -> Seq<u8> decreases xs.len() {
    if xs.len() == 0 { Seq::<u8>::empty() } else { xs[0] + cat(xs.skip(1)) }
}
proof fn lemma_cat_push(xs: Seq<Seq<u8>>, x: Seq<u8>)
    ensures cat(xs.push(x)) == cat(xs) + x
    decreases xs.len()
{
    if xs.len() == 0 {
        assert(xs.push(x).skip(1) =~= Seq::<Seq<u8>>::empty());
        assert(xs.push(x)[0] == x);
        assert(cat(xs.push(x)) == x + cat(xs.push(x).skip(1)));
        assert(cat(xs.push(x).skip(1)) == Seq::<u8>::empty());
        assert(cat(xs.push(x)) =~= x);
        assert(cat(xs) + x =~= x);
    } else {
        assert(xs.push(x).skip(1) =~= xs.skip(1).push(x));
        lemma_cat_push(xs.skip(1), x);
        assert(xs.push(x)[0] == xs[0]);
        assert(cat(xs.push(x)) =~= xs[0] + (cat(xs.skip(1)) + x));
        assert(cat(xs) + x =~= xs[0] + (cat(xs.skip(1)) + x));
    }
}
proof fn lemma_flat_is_cat(items: Seq<&[u8]>)
    ensures flat(items) == cat(views(items)), total(items) == cat(views(items)).len()
    decreases items.len()
{
    if items.len() == 0 {
        assert(views(items) =~= Seq::<Seq<u8>>::empty());
    } else {
        lemma_flat_is_cat(items.drop_last());
        assert(views(items) =~= views(items.drop_last()).push(items.last()@));
        lemma_cat_push(views(items.drop_last()), items.last()@);
    }
}
proof fn lemma_cat_of_encodings(bs: Seq<Seq<u8>>)
    ensures cat(Seq::new(bs.len(), |i: int| enc_str(bs[i]))) == cat_enc(bs)
    decreases bs.len()
{
    let es = Seq::new(bs.len(), |i: int| enc_str(bs[i]));
    if bs.len() == 0 {
    } else {
        lemma_cat_of_encodings(bs.skip(1));
        assert(es.skip(1) =~= Seq::new(bs.skip(1).len(), |i: int| enc_str(bs.skip(1)[i])));
        assert(es[0] == enc_str(bs[0]));
    }
}
/// THEOREM (flat lists): if `out` is what rlp::list returns (its contract: out == enc_list(items)) for items that are the
/// string encodings of the byte strings bs (the contracts of rlp::bytes / rlp::uint), then a strict decoder accepts `out`,
/// consumes it completely and returns exactly bs.
proof fn theorem_flat_list_round_trip(items: Seq<&[u8]>, bs: Seq<Seq<u8>>, out: Seq<u8>)
    requires
        out == enc_list(items),
        items.len() == bs.len(),
        forall|i: int| 0 <= i < bs.len() ==> #[trigger] items[i]@ == enc_str(bs[i]),
        forall|i: int| 0 <= i < bs.len() ==> #[trigger] bs[i].len() <= usize::MAX,
        total(items) <= usize::MAX,
    ensures
        dec_list(out) matches Some(pr) && pr.1.len() == 0 && dec_all(pr.0) == Some(bs),
{
    lemma_flat_is_cat(items);
    assert(views(items) =~= Seq::new(bs.len(), |i: int| enc_str(bs[i])));
    lemma_cat_of_encodings(bs);
    let p = cat_enc(bs);
    assert(flat(items) == p);
    assert(total(items) == p.len());
    lemma_dec_list_hdr(p, Seq::<u8>::empty());
    assert(out =~= hdr(p.len(), 0xc0) + p + Seq::<u8>::empty());
    lemma_cat_enc_len(bs);
    lemma_dec_strs_cat(bs, p.len());
}

// ---------- dependency / std interface contracts (ASSUMED here; cross-checked on the real
// usize / ethnum code by complete Kani harnesses xc_* in contracts/kani/src/transaction/rlp.rs) ----------
#[verifier::external_body]
pub fn shim_usize_to_be_bytes(x: usize) -> (r: [u8; 8])
    ensures r@ == be_fix(x as nat, 8)
{ x.to_be_bytes() }

pub assume_specification[ usize::leading_zeros ](x: usize) -> (r: u32)
    ensures r == 64 - bitlen(x as nat);

#[verifier::external_body]
pub struct U256 { _w: [u64; 4] }
impl U256 {
    pub uninterp spec fn view(&self) -> nat;
    #[verifier::external_body]
    pub fn leading_zeros(self) -> (r: u32)
        ensures r == 256 - bitlen(self@), self@ < pow2(256)
    { unimplemented!() }
    #[verifier::external_body]
    pub fn to_be_bytes(self) -> (r: [u8; 32])
        ensures r@ == be_fix(self@, 32)
    { unimplemented!() }
}
impl Clone for U256 { #[verifier::external_body] fn clone(&self) -> (r: Self) ensures r@ == self@ { unimplemented!() } }
impl Copy for U256 {}

#[verifier::external_body]
pub fn shim_sum_lens(items: &[&[u8]]) -> (r: usize)
    requires total(items@) <= usize::MAX
    ensures r == total(items@)
{ items.iter().map(|item| item.len()).sum() }

//@@ fn src/transaction/rlp.rs::len
//@@   rename rlp_len
//@@   ret out
//@@   requires offset == 0x80 || offset == 0xc0
//@@   ensures out@ == hdr(len as nat, offset)
//@@   rewrite R2 /(\b\w+)\.to_be_bytes\(\)/ => shim_usize_to_be_bytes(\1)
//@@   prologue assert(pow2(64) == 0x1_0000_0000_0000_0000) by (compute);
//@@   prologue lemma_strip(len as nat, 8);
//@@   epilogue assert(out@ =~= hdr(len as nat, offset));
//@@ end

//@@ fn src/transaction/rlp.rs::bytes
//@@   rename rlp_bytes
//@@   ret out
//@@   ensures out@ == enc_str(bytes@)
//@@   rewrite R1 /(?<![\w.])len\(/ => rlp_len(
//@@   rewrite R3 /match\s+(\w+)\s*\{\s*\[(\w+)\]\s+if\s+(.*?)\s*=>\s*(.*?),\s*_\s*=>\s*\{(.*)\}\s*\}/ => if \1.len() == 1 && { let \2 = &\1[0]; \3 } { let \2 = &\1[0]; \4 } else {\5}
//@@   epilogue assert(out@ =~= enc_str(bytes@));
//@@ end

//@@ fn src/transaction/rlp.rs::uint
//@@   ret out
//@@   ensures out@ == enc_uint(value@)
//@@   rewrite R1 /(?<![\w.])bytes\(/ => rlp_bytes(
//@@   prologue if value@ < pow2(256) { lemma_strip(value@, 32); }
//@@ end

//@@ fn src/transaction/rlp.rs::list
//@@   ret out
//@@   requires total(items@) <= usize::MAX
//@@   ensures out@ == enc_list(items@)
//@@   rewrite R1 /(?<![\w.])len\(/ => rlp_len(
//@@   rewrite R4 /(\w+)\.iter\(\)\.map\(\|item\| item\.len\(\)\)\.sum\(\)/ => shim_sum_lens(\1)
//@@   loop 0 it
//@@   inv buf@ == hdr(total(items@), 0xc0) + flat(items@.take(it.index as int))
//@@   loopbody 0 let i = it.index as int; assert(items@.take(i + 1).drop_last() =~= items@.take(i)); assert(items@.take(i + 1).last() == items@[i]);
//@@   epilogue assert(items@.take(items@.len() as int) =~= items@);
//@@ end

} // verus!
fn main() {}
