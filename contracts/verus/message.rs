// Verus unit for C10: src/message.rs::digest against EIP-191 (personal message):
//   keccak256(0x19 "Ethereum Signed Message:\n" ++ decimal(len(m)) ++ m)
use vstd::prelude::*;
verus! {
global size_of usize == 8;

// ---------- spec vocabulary ----------
pub open spec fn dec_digits(n: nat) -> Seq<u8> decreases n {
    if n < 10 { seq![(48 + n) as u8] } else { dec_digits(n / 10).push((48 + n % 10) as u8) }
}
pub open spec fn prefix191() -> Seq<u8> {
    seq![0x19u8, 0x45, 0x74, 0x68, 0x65, 0x72, 0x65, 0x75, 0x6d, 0x20, 0x53, 0x69, 0x67, 0x6e, 0x65, 0x64, 0x20,
         0x4d, 0x65, 0x73, 0x73, 0x61, 0x67, 0x65, 0x3a, 0x0a]
}
pub open spec fn eip191_preimage(m: Seq<u8>) -> Seq<u8> { prefix191() + dec_digits(m.len()) + m }
pub uninterp spec fn keccak256(data: Seq<u8>) -> Seq<u8>;

// ---------- dependency / std interface contracts (ASSUMED; see evidence) ----------
#[verifier::external_body]
pub struct Digest { _d: [u8; 32] }
impl Digest {
    pub uninterp spec fn view(&self) -> Seq<u8>;
    /// ethdigest::Digest::of: Keccak-256 of the bytes (uninterpreted function of the input)
    #[verifier::external_body]
    pub fn of(data: Vec<u8>) -> (r: Digest)
        ensures r@ == keccak256(data@)
    { unimplemented!() }
}
/// `write!(buffer, "{}", n).expect(..)` on a Vec<u8>: appends the decimal ASCII digits of n, never fails
/// (std io::Write for Vec<u8> + usize Display; cross-checked natively and by Kani for small digit counts)
#[verifier::external_body]
pub fn shim_write_display_usize(buffer: &mut Vec<u8>, n: usize)
    ensures final(buffer)@ == old(buffer)@ + dec_digits(n as nat)
{ unimplemented!() }

/// Vec::with_capacity only affects capacity
#[verifier::external_body]
pub fn shim_with_capacity(n: usize) -> (v: Vec<u8>)
    ensures v@ == Seq::<u8>::empty()
{ Vec::with_capacity(n) }

/// b"\x19Ethereum Signed Message:\n" as spelled in the source (the literal itself is carried verbatim; this lemma
/// ties a 26-byte slice with these contents to prefix191())
proof fn lemma_prefix(s: Seq<u8>)
    requires s.len() == 26,
        s[0] == 0x19, s[1] == 0x45, s[2] == 0x74, s[3] == 0x68, s[4] == 0x65, s[5] == 0x72, s[6] == 0x65, s[7] == 0x75,
        s[8] == 0x6d, s[9] == 0x20, s[10] == 0x53, s[11] == 0x69, s[12] == 0x67, s[13] == 0x6e, s[14] == 0x65, s[15] == 0x64,
        s[16] == 0x20, s[17] == 0x4d, s[18] == 0x65, s[19] == 0x73, s[20] == 0x73, s[21] == 0x61, s[22] == 0x67, s[23] == 0x65,
        s[24] == 0x3a, s[25] == 0x0a,
    ensures s =~= prefix191()
{}

//@@ fn src/message.rs::digest
//@@   ret out
//@@   requires data@.len() <= 0x7fff_ffff_ffff_ffff
//@@   ensures out@ == keccak256(eip191_preimage(data@))
//@@   bytelits
//@@   rewrite R7 /Vec::with_capacity\(/ => shim_with_capacity(
//@@   rewrite R5 /write!\((\w+),\s*"\{\}",\s*(.*?)\)\s*\.expect\("[^"]*"\);/ => shim_write_display_usize(&mut \1, \2);
//@@   after buffer\.extend_from_slice\(&\[ :: assert(buffer@ =~= prefix191());
//@@   after buffer\.extend_from_slice\(data\) :: assert(buffer@ =~= eip191_preimage(data@));
//@@ end

} // verus!
fn main() {}
