#[cfg(kani)]
mod verif_kani {
    use super::*;

    fn empty_types() -> Types {
        Types(HashMap::default())
    }

    // ---- callee contracts of the JSON -> scalar dependencies: any result the dependency may produce
    static mut U_OK: bool = false;
    static mut U_VAL: (u128, u128) = (0, 0);
    fn uint_deserialize_contract<'de, D>(_d: D) -> Result<U256, D::Error>
    where
        D: Deserializer<'de>,
    {
        let ok: bool = kani::any();
        let hi: u128 = kani::any();
        let lo: u128 = kani::any();
        unsafe {
            U_OK = ok;
            U_VAL = (hi, lo);
        }
        kani::assume(ok); // the refusal branch is plain `?` propagation (checked natively); constructing a serde error drags core::fmt into CBMC
        Ok(U256::from_words(hi, lo))
    }
    static mut I_OK: bool = false;
    static mut I_VAL: (i128, i128) = (0, 0);
    fn int_deserialize_contract<'de, T, D>(_d: D) -> Result<T, D::Error>
    where
        T: permissive::Permissive,
        D: Deserializer<'de>,
    {
        let ok: bool = kani::any();
        let hi: i128 = kani::any();
        let lo: i128 = kani::any();
        unsafe {
            I_OK = ok;
            I_VAL = (hi, lo);
        }
        kani::assume(ok);
        Ok(T::cast(I256::from_words(hi, lo)))
    }

    fn any_width() -> u32 {
        let k: u32 = kani::any();
        kani::assume(k >= 1 && k <= 32);
        8 * k
    }

    // ---- uintN: Ok iff the dependency produced v and v < 2^N; the word is v as 32 big-endian bytes
    #[kani::proof]
    #[kani::unwind(34)]
    #[kani::stub(crate::serialization::uint::deserialize, uint_deserialize_contract)]
    #[kani::stub(std::hash::RandomState::new, crate::verif_common::fixed_random_state)]
    #[kani::stub(alloc::fmt::format, crate::verif_common::no_format)]
    fn c09_encode_uint_range() {
        let n = any_width();
        let types = empty_types();
        let res = types.encode_value(&MemberKind::Uint(n), Value::Null);
        let (ok, (hi, lo)) = unsafe { (U_OK, U_VAL) };
        // v < 2^n  <=>  the bits at positions >= n are all zero
        let fits = if n == 256 {
            true
        } else if n >= 128 {
            n == 256 || (hi >> (n - 128)) == 0
        } else {
            hi == 0 && (lo >> n) == 0
        };
        match &res {
            Ok(word) => {
                assert!(ok, "uintN: a value the number parser refused must be refused");
                assert!(fits, "uintN: an integer outside [0, 2^N) is refused");
                assert!(word[..16] == hi.to_be_bytes() && word[16..] == lo.to_be_bytes(), "uintN: encoded as the 32-byte big-endian word of the value");
            }
            Err(_) => assert!(!(ok && fits), "uintN: a conforming value was refused"),
        }
        kani::cover!(res.is_ok() && n == 8);
        kani::cover!(res.is_err() && ok && n == 248);
        core::mem::forget(res);
    }

    // ---- intN: Ok iff -2^(N-1) <= v < 2^(N-1); the word is the two's complement sign-extended value
    #[kani::proof]
    #[kani::unwind(34)]
    #[kani::stub(ethnum::serde::permissive::deserialize, int_deserialize_contract)]
    #[kani::stub(std::hash::RandomState::new, crate::verif_common::fixed_random_state)]
    #[kani::stub(alloc::fmt::format, crate::verif_common::no_format)]
    fn c09_encode_int_range() {
        let n = any_width();
        let types = empty_types();
        let res = types.encode_value(&MemberKind::Int(n), Value::Null);
        let (ok, (hi, lo)) = unsafe { (I_OK, I_VAL) };
        let lo = lo as u128;
        // -2^(n-1) <= v < 2^(n-1)  <=>  bits n-1 .. 255 of the two's complement representation are all equal
        let fits = if n == 256 {
            true
        } else if n > 128 {
            // bits n-1-128 .. 127 of hi all equal
            let s = hi >> (n - 1 - 128);
            s == 0 || s == -1
        } else {
            // hi is all sign, and bits n-1 .. 127 of lo equal that sign
            let s = (lo as i128) >> (n - 1);
            (hi == 0 && s == 0) || (hi == -1 && s == -1)
        };
        match &res {
            Ok(word) => {
                assert!(ok, "intN: a value the number parser refused must be refused");
                assert!(fits, "intN: an integer outside [-2^(N-1), 2^(N-1)) is refused");
                assert!(word[..16] == hi.to_be_bytes() && word[16..] == lo.to_be_bytes(), "intN: encoded as the sign-extended 32-byte two's complement word");
            }
            Err(_) => assert!(!(ok && fits), "intN: a conforming value was refused"),
        }
        kani::cover!(res.is_ok() && n == 8 && hi == -1);
        kani::cover!(res.is_err() && ok && n == 8);
        core::mem::forget(res);
    }

    // ---- bytesN: Ok iff the payload has exactly N bytes; left-aligned, zero padded
    static mut B_OK: bool = false;
    static mut B_LEN: usize = 0;
    static mut B_VAL: [u8; 40] = [0; 40];
    fn bytes_deserialize_contract<'de, D>(_d: D) -> Result<Vec<u8>, D::Error>
    where
        D: Deserializer<'de>,
    {
        let ok: bool = kani::any();
        let len: usize = kani::any();
        kani::assume(len <= 40);
        let val: [u8; 40] = kani::any();
        unsafe {
            B_OK = ok;
            B_LEN = len;
            B_VAL = val;
        }
        kani::assume(ok);
        Ok(val[..len].to_vec())
    }
    #[kani::proof]
    #[kani::unwind(42)]
    #[kani::stub(crate::serialization::bytes::deserialize, bytes_deserialize_contract)]
    #[kani::stub(std::hash::RandomState::new, crate::verif_common::fixed_random_state)]
    #[kani::stub(alloc::fmt::format, crate::verif_common::no_format)]
    fn c09_encode_bytes_n() {
        let n: u32 = kani::any();
        kani::assume(n >= 1 && n <= 32);
        let types = empty_types();
        let res = types.encode_value(&MemberKind::Bytes(Some(n)), Value::Null);
        let (ok, len, val) = unsafe { (B_OK, B_LEN, B_VAL) };
        match &res {
            Ok(word) => {
                assert!(ok && len == n as usize, "bytesN: a byte string whose length is not N is refused");
                let mut i = 0;
                while i < 32 {
                    assert!(word[i] == if i < len { val[i] } else { 0 }, "bytesN: left-aligned, zero padded to 32 bytes");
                    i += 1;
                }
            }
            Err(_) => assert!(!(ok && len == n as usize), "bytesN: a conforming value was refused"),
        }
        kani::cover!(res.is_ok() && n == 32);
        kani::cover!(res.is_err() && ok && len == n as usize + 1);
        core::mem::forget(res);
    }
}

#[cfg(kani)]
mod verif_kani2 {
    use super::*;

    fn empty_types() -> Types {
        Types(HashMap::default())
    }

    // ---- callee contract of ethdigest::Digest::of: records each input, returns the k-th recorded symbolic digest
    pub static mut OF_CALLS: usize = 0;
    pub static mut OF_LEN: [usize; 4] = [0; 4];
    pub static mut OF_IN: [[u8; 160]; 4] = [[0; 160]; 4];
    pub static mut OF_OUT: [[u8; 32]; 4] = [[0; 32]; 4];
    pub fn digest_of_recorder<T: AsRef<[u8]>>(data: T) -> Digest {
        let d = data.as_ref();
        unsafe {
            let k = OF_CALLS;
            OF_CALLS += 1;
            if k < 4 {
                OF_LEN[k] = d.len();
                let mut i = 0;
                while i < d.len() && i < 160 {
                    OF_IN[k][i] = d[i];
                    i += 1;
                }
                Digest(OF_OUT[k])
            } else {
                Digest([0; 32])
            }
        }
    }
    /// loop-free comparison of 32 bytes (two u128 loads), so that harnesses can run with a small unwind bound
    fn eq32(a: &[u8], b: &[u8]) -> bool {
        let w = |x: &[u8], o: usize| u128::from_be_bytes(<[u8; 16]>::try_from(&x[o..o + 16]).unwrap());
        w(a, 0) == w(b, 0) && w(a, 16) == w(b, 16)
    }
    /// loop-free recorder for inputs of at most 96 bytes that are a multiple of 32 (arrays of <= 3 words) or 66 bytes (compute)
    pub fn digest_of_recorder_small<T: AsRef<[u8]>>(data: T) -> Digest {
        let d = data.as_ref();
        unsafe {
            let k = OF_CALLS;
            OF_CALLS += 1;
            if k < 4 {
                OF_LEN[k] = d.len();
                if d.len() >= 32 {
                    OF_IN[k][0..32].copy_from_slice(&d[0..32]);
                }
                if d.len() >= 64 {
                    OF_IN[k][32..64].copy_from_slice(&d[32..64]);
                }
                if d.len() == 66 {
                    OF_IN[k][64..66].copy_from_slice(&d[64..66]);
                }
                if d.len() >= 96 {
                    OF_IN[k][64..96].copy_from_slice(&d[64..96]);
                }
                Digest(OF_OUT[k])
            } else {
                Digest([0; 32])
            }
        }
    }
    /// 32 symbolic bytes without an array-generation loop
    fn any32() -> [u8; 32] {
        let mut o = [0u8; 32];
        o[..16].copy_from_slice(&kani::any::<u128>().to_be_bytes());
        o[16..].copy_from_slice(&kani::any::<u128>().to_be_bytes());
        o
    }
    fn set_outs() -> [[u8; 32]; 4] {
        let o = [any32(), any32(), any32(), any32()];
        unsafe { OF_OUT = o };
        o
    }

    // ---- bool
    #[kani::proof]
    #[kani::unwind(34)]
    #[kani::stub(std::hash::RandomState::new, crate::verif_common::fixed_random_state)]
    #[kani::stub(alloc::fmt::format, crate::verif_common::no_format)]
    fn c08_encode_bool() {
        let b: bool = kani::any();
        let res = empty_types().encode_value(&MemberKind::Bool, Value::Bool(b));
        assert!(res.is_ok(), "bool: JSON booleans are accepted");
        let w = res.as_ref().unwrap();
        let mut i = 0;
        while i < 31 {
            assert!(w[i] == 0, "bool: 32-byte word 0 or 1");
            i += 1;
        }
        assert!(w[31] == b as u8, "bool: 32-byte word 0 or 1");
        kani::cover!(b);
        core::mem::forget(res);
    }

    // ---- dynamic bytes: keccak of the payload
    static mut B_LEN: usize = 0;
    static mut B_VAL: [u8; 40] = [0; 40];
    fn bytes_deserialize_contract<'de, D>(_d: D) -> Result<Vec<u8>, D::Error>
    where
        D: Deserializer<'de>,
    {
        let len: usize = kani::any();
        kani::assume(len <= 40);
        let val: [u8; 40] = kani::any();
        unsafe {
            B_LEN = len;
            B_VAL = val;
        }
        Ok(val[..len].to_vec())
    }
    #[kani::proof]
    #[kani::unwind(42)]
    #[kani::stub(crate::serialization::bytes::deserialize, bytes_deserialize_contract)]
    #[kani::stub(ethdigest::Digest::of, digest_of_recorder)]
    #[kani::stub(std::hash::RandomState::new, crate::verif_common::fixed_random_state)]
    #[kani::stub(alloc::fmt::format, crate::verif_common::no_format)]
    fn c08_encode_bytes_dynamic() {
        let outs = set_outs();
        let res = empty_types().encode_value(&MemberKind::Bytes(None), Value::Null);
        let (len, val) = unsafe { (B_LEN, B_VAL) };
        assert!(res.is_ok(), "bytes: any byte string is accepted");
        assert!(unsafe { OF_CALLS } == 1 && unsafe { OF_LEN[0] } == len, "bytes: encoded as the Keccak-256 of exactly the payload");
        let mut i = 0;
        while i < len {
            assert!(unsafe { OF_IN[0][i] } == val[i], "bytes: encoded as the Keccak-256 of exactly the payload");
            i += 1;
        }
        assert!(*res.as_ref().unwrap() == outs[0], "bytes: the word is that hash");
        kani::cover!(len == 0);
        kani::cover!(len == 40);
        core::mem::forget(res);
    }
}

#[cfg(kani)]
mod verif_kani3 {
    use super::*;

    // ---- C20: TypedDataBlob::verify_domain_type.  Callee contract of Types::type_definition (a HashMap lookup): records the
    // name asked for and hands back the member list the harness prepared (the `missing type` branch is its own `?`).
    static mut ASKED_DOMAIN: bool = false;
    static mut ASKED: usize = 0;
    static mut MEMBERS_PTR: *const Member = core::ptr::null();
    static mut MEMBERS_LEN: usize = 0;
    fn type_definition_contract<'a>(_this: &'a Types, kind: &'a str) -> Result<TypeDefinition<'a>> {
        unsafe {
            ASKED += 1;
            ASKED_DOMAIN = kind.len() == 12 && kind.as_bytes() == b"EIP712Domain";
            Ok(TypeDefinition { kind, members: core::slice::from_raw_parts(MEMBERS_PTR, MEMBERS_LEN) })
        }
    }

    const STD: [&[u8]; 5] = [b"name", b"version", b"chainId", b"verifyingContract", b"salt"];

    /// a member name: any ASCII string of 3, 4, 7 or 17 bytes (the lengths of the five standard names and one other)
    fn any_name() -> (String, [u8; 17], usize) {
        let buf: [u8; 17] = kani::any();
        let sel: u8 = kani::any();
        let len: usize = match sel & 3 {
            0 => 3,
            1 => 4,
            2 => 7,
            _ => 17,
        };
        let mut i = 0;
        while i < 17 {
            kani::assume(buf[i] < 0x80);
            i += 1;
        }
        // SAFETY: all bytes are ASCII (assumed above)
        let s = unsafe {
            match len {
                3 => String::from_utf8_unchecked(buf[..3].to_vec()),
                4 => String::from_utf8_unchecked(buf[..4].to_vec()),
                7 => String::from_utf8_unchecked(buf[..7].to_vec()),
                _ => String::from_utf8_unchecked(buf[..17].to_vec()),
            }
        };
        (s, buf, len)
    }
    /// a member type: any of the non-recursive kinds with any width, a struct reference, or an array
    fn any_kind() -> (MemberKind, u8, u32) {
        let sel: u8 = kani::any();
        let n: u32 = kani::any();
        let k = match sel % 10 {
            0 => MemberKind::String,
            1 => MemberKind::Uint(n),
            2 => MemberKind::Int(n),
            3 => MemberKind::Address,
            4 => MemberKind::Bytes(Some(n)),
            5 => MemberKind::Bytes(None),
            6 => MemberKind::Bool,
            7 => MemberKind::Struct(String::new()),
            8 => MemberKind::Array(Box::new(MemberKind::String), None),
            _ => MemberKind::Array(Box::new(MemberKind::Uint(n)), Some(n as usize)),
        };
        (k, sel % 10, n)
    }
    fn name_is(buf: &[u8; 17], len: usize, std: &[u8]) -> bool {
        if len != std.len() {
            return false;
        }
        let mut i = 0;
        while i < std.len() {
            if buf[i] != std[i] {
                return false;
            }
            i += 1;
        }
        true
    }

    /// The rule of the property statement: a non-empty selection of name:string, version:string, chainId:uint256,
    /// verifyingContract:address, salt:bytes32, each at most once, in that relative order, with exactly those types.
    fn domain_at<const N: usize>() {
        let mut members: Vec<Member> = Vec::with_capacity(N);
        let mut spec_ok = N > 0;
        let mut next = 0usize; // first standard position still allowed
        let mut k = 0;
        while k < N {
            let (name, buf, len) = any_name();
            let (kind, ksel, n) = any_kind();
            let mut pos = 5;
            let mut j = 0;
            while j < 5 {
                if name_is(&buf, len, STD[j]) {
                    pos = j;
                }
                j += 1;
            }
            let std_type = match pos {
                0 | 1 => ksel == 0,
                2 => ksel == 1 && n == 256,
                3 => ksel == 3,
                4 => ksel == 4 && n == 32,
                _ => false,
            };
            if pos == 5 || pos < next || !std_type {
                spec_ok = false;
            }
            if pos < 5 && pos >= next {
                next = pos + 1;
            }
            members.push(Member { name, kind });
            k += 1;
        }
        unsafe {
            MEMBERS_PTR = members.as_ptr();
            MEMBERS_LEN = N;
        }
        let blob = TypedDataBlob {
            types: Types(HashMap::default()),
            primary_type: String::new(),
            domain: JsonObject::new(),
            message: JsonObject::new(),
        };
        let res = blob.verify_domain_type();
        assert!(unsafe { ASKED == 1 && ASKED_DOMAIN }, "domain: the type checked is the one named EIP712Domain");
        assert!(res.is_ok() == spec_ok, "domain: accepted iff a non-empty, order-preserving, duplicate-free selection of the five standard fields with their standard types");
        kani::cover!(res.is_ok() == (N >= 1 && N <= 5));
        kani::cover!(res.is_err());
        core::mem::forget(res);
        core::mem::forget(blob);
        core::mem::forget(members);
    }
    macro_rules! domain {
        ($($name:ident => $n:expr;)*) => {$(
            #[kani::proof]
            #[kani::unwind(19)]
            #[kani::stub(Types::type_definition, type_definition_contract)]
            #[kani::stub(std::hash::RandomState::new, crate::verif_common::fixed_random_state)]
            #[kani::stub(alloc::fmt::format, crate::verif_common::no_format)]
            fn $name() { domain_at::<$n>() }
        )*};
    }
    domain! {
        c20_domain_members_0 => 0;
        c20_domain_members_1 => 1;
        c20_domain_members_2 => 2;
        c20_domain_members_3 => 3;
        c20_domain_members_4 => 4;
        c20_domain_members_5 => 5;
        c20_domain_members_6 => 6;
    }
}

#[cfg(kani)]
mod verif_kani4 {
    use super::verif_kani2::{digest_of_recorder_small, OF_CALLS, OF_IN, OF_LEN, OF_OUT};
    use super::*;

    // ---- TypedDataBlob::compute: the composition at the top of C08 / C09 / C20.  Callee contracts (recording stubs):
    // verify_domain_type (any verdict), Types::struct_hash (any verdict, any digest; records which type name and which of
    // the two JSON objects it was given), Digest::of (records its input).
    static mut LOG: [u8; 8] = [0; 8]; // 1 = verify_domain_type, 2 = struct_hash(domain), 3 = struct_hash(message), 9 = struct_hash(other)
    static mut NLOG: usize = 0;
    static mut VERDICT: [bool; 3] = [false; 3];
    static mut HASHES: [[u8; 32]; 2] = [[0; 32]; 2];
    fn log(x: u8) {
        unsafe {
            if NLOG < 8 {
                LOG[NLOG] = x;
            }
            NLOG += 1;
        }
    }
    fn verify_domain_type_contract(_this: &TypedDataBlob) -> Result<()> {
        log(1);
        if unsafe { VERDICT[0] } {
            Ok(())
        } else {
            Err(anyhow::Error::new(core::fmt::Error))
        }
    }
    fn name_is(kind: &str, want: &[u8]) -> bool {
        let b = kind.as_bytes();
        if b.len() != want.len() {
            return false;
        }
        let mut i = 0;
        while i < want.len() {
            if b[i] != want[i] {
                return false;
            }
            i += 1;
        }
        true
    }
    fn struct_hash_contract(_this: &Types, kind: &str, data: JsonObject) -> Result<Digest> {
        // the primary type of the harness's document is called "Pt"
        let which = if name_is(kind, b"EIP712Domain") && data.len() == 0 {
            2
        } else if name_is(kind, b"Pt") && data.len() == 0 {
            3
        } else {
            9
        };
        log(which);
        core::mem::forget(data);
        let k = if which == 2 { 0 } else { 1 };
        if unsafe { VERDICT[1 + k] } {
            Ok(Digest(unsafe { HASHES[k] }))
        } else {
            Err(anyhow::Error::new(core::fmt::Error))
        }
    }
    fn any32() -> [u8; 32] {
        let mut o = [0u8; 32];
        o[..16].copy_from_slice(&kani::any::<u128>().to_be_bytes());
        o[16..].copy_from_slice(&kani::any::<u128>().to_be_bytes());
        o
    }

    #[kani::proof]
    #[kani::unwind(34)]
    #[kani::stub(TypedDataBlob::verify_domain_type, verify_domain_type_contract)]
    #[kani::stub(Types::struct_hash, struct_hash_contract)]
    #[kani::stub(ethdigest::Digest::of, digest_of_recorder_small)]
    #[kani::stub(std::hash::RandomState::new, crate::verif_common::fixed_random_state)]
    #[kani::stub(alloc::fmt::format, crate::verif_common::no_format)]
    #[kani::stub(<anyhow::Error as core::ops::Drop>::drop, crate::verif_common::leak_anyhow)]
    fn c08_compute_composition() {
        let (v0, v1, v2): (bool, bool, bool) = (kani::any(), kani::any(), kani::any());
        let (ds, mh, out) = (any32(), any32(), any32());
        unsafe {
            VERDICT = [v0, v1, v2];
            HASHES = [ds, mh];
            OF_OUT[0] = out;
        }
        // both JSON objects are empty (dropping a non-empty serde_json::Map does not go through CBMC), so WHICH object each
        // hashStruct call receives is not visible here - only the type names and the order are; the native differential covers it
        let blob = TypedDataBlob { types: Types(HashMap::default()), primary_type: String::from("Pt"), domain: JsonObject::new(), message: JsonObject::new() };
        let res = blob.compute();
        let (n, l) = unsafe { (NLOG, LOG) };
        assert!(n >= 1 && l[0] == 1, "compute: the domain type is verified first, before anything is hashed");
        if !v0 {
            assert!(res.is_err() && n == 1 && unsafe { OF_CALLS } == 0, "compute: a malformed domain type is refused and nothing is hashed");
        } else if !v1 {
            assert!(res.is_err() && n == 2 && l[1] == 2 && unsafe { OF_CALLS } == 0, "compute: a refused domain value is an error and no digest is produced");
        } else if !v2 {
            assert!(res.is_err() && n == 3 && l[1] == 2 && l[2] == 3 && unsafe { OF_CALLS } == 0, "compute: a refused message is an error and no digest is produced");
        } else {
            assert!(n == 3 && l[1] == 2 && l[2] == 3, "compute: hashStruct(EIP712Domain, domain) then hashStruct(primaryType, message), nothing else");
            assert!(res.is_ok(), "compute: conforming documents are accepted");
            let t = res.as_ref().unwrap();
            assert!(unsafe { OF_CALLS } == 1 && unsafe { OF_LEN[0] } == 66, "compute: one Keccak call over 66 bytes");
            let inp = unsafe { OF_IN[0] };
            // recorder layout for 66-byte inputs: bytes 0..64 in place, bytes 64..66 in place
            assert!(inp[0] == 0x19 && inp[1] == 0x01, "compute: preimage starts with 0x19 0x01");
            let mut i = 0;
            while i < 30 {
                assert!(inp[2 + i] == ds[i], "compute: then the domain separator");
                i += 1;
            }
            assert!(inp[32] == ds[30] && inp[33] == ds[31], "compute: then the domain separator");
            let mut i = 0;
            while i < 32 {
                assert!(inp[34 + i] == mh[i], "compute: then hashStruct(message)");
                i += 1;
            }
            assert!(t.signing_message().0 == out, "compute: the signing digest is that Keccak value");
            assert!(t.domain_separator().0 == ds && t.message_hash().0 == mh, "compute: domain separator and message hash are the two struct hashes");
        }
        kani::cover!(res.is_ok());
        kani::cover!(res.is_err() && v0 && v1);
        core::mem::forget(res);
    }
}
