#[cfg(kani)]
mod verif_kani {
    use super::wordlist::verif_kani as wl;
    use super::*;
    use crate::rand::verif_kani as osrand;

    // ---- BIP-39 vocabulary, written from the standard (independent of the code under test) ----
    fn valid_count(n: usize) -> bool {
        n == 12 || n == 15 || n == 18 || n == 21 || n == 24
    }
    /// bit k (0 = first) of the concatenation of the 11-bit big-endian word indices
    fn bit(idx: &[usize], k: usize) -> u8 {
        ((idx[k / 11] >> (10 - k % 11)) & 1) as u8
    }
    /// byte j of the concatenation
    fn byte_of(idx: &[usize], j: usize) -> u8 {
        let mut b = 0u8;
        let mut t = 0;
        while t < 8 {
            b = (b << 1) | bit(idx, 8 * j + t);
            t += 1;
        }
        b
    }

    // ---- callee contract of hash_seed(seed, hash): records the seed, writes 32 recorded symbolic bytes
    static mut HASH_CALLS: usize = 0;
    static mut HASH_SEED: [u8; 64] = [0; 64];
    static mut HASH_SEED_LEN: usize = 0;
    static mut HASH_OUT: [u8; 32] = [0; 32];
    fn hash_seed_contract(seed: &[u8], hash: &mut [u8]) {
        unsafe {
            HASH_CALLS += 1;
            HASH_SEED_LEN = seed.len();
            let mut i = 0;
            while i < seed.len() && i < 64 {
                HASH_SEED[i] = seed[i];
                i += 1;
            }
            let mut i = 0;
            while i < 32 {
                hash[i] = HASH_OUT[i];
                i += 1;
            }
        }
    }

    // ---- callee contract of Language::split: the phrase consists of NWORDS words
    static mut NWORDS: usize = 0;
    fn split_contract(_phrase: &str) -> Result<(Language, Vec<&str>)> {
        Ok((Language::English, vec!["w"; unsafe { NWORDS }]))
    }

    // ------------------------------------------------------------------ mnemonic_to_byte_length
    #[kani::proof]
    #[kani::stub(std::backtrace::Backtrace::capture, crate::verif_common::no_backtrace)]
    #[kani::stub(alloc::fmt::format, crate::verif_common::no_format)]
    fn c01_byte_length_total() {
        let n: usize = kani::any();
        let res = mnemonic_to_byte_length(n);
        match &res {
            Ok(b) => {
                assert!(valid_count(n), "length table: only 12, 15, 18, 21, 24 words are accepted");
                assert!(*b == n * 4 / 3, "length table: ENT/8 = 4n/3 bytes");
            }
            Err(_) => assert!(!valid_count(n), "length table: a supported word count was refused"),
        }
        kani::cover!(res.is_ok());
        kani::cover!(res.is_err() && n > 12 && n < 24);
        core::mem::forget(res);
    }

    // ------------------------------------------------------------------ from_phrase_str, one harness per word count
    fn from_phrase_at<const N: usize>() {
        let idx: [u16; N] = kani::any();
        let found: [bool; N] = kani::any();
        let h: [u8; 32] = kani::any();
        let mut index = [0usize; 40];
        let mut all_found = true;
        let mut k = 0;
        while k < N {
            kani::assume(idx[k] < 2048);
            index[k] = idx[k] as usize;
            unsafe {
                wl::SEARCH_INDEX[k] = idx[k] as usize;
                wl::SEARCH_FOUND[k] = found[k];
            }
            all_found = all_found && found[k];
            k += 1;
        }
        unsafe {
            NWORDS = N;
            HASH_OUT = h;
        }
        let res = Mnemonic::from_phrase_str("the words come from the split contract");
        if !valid_count(N) {
            assert!(res.is_err(), "from_phrase: every word count other than 12, 15, 18, 21, 24 is rejected");
        } else {
            let ent = N * 4 / 3;
            let cs = N / 3;
            let checksum_ok = (h[0] >> (8 - cs)) == (index[N - 1] & ((1 << cs) - 1)) as u8;
            match &res {
                Ok(m) => {
                    assert!(all_found, "from_phrase: a word that is not in the list must be rejected");
                    assert!(checksum_ok, "from_phrase: the trailing ENT/32 bits must equal the leading bits of SHA-256(entropy)");
                    assert!(m.len == ent, "from_phrase: entropy length is 4n/3 bytes");
                    assert!(unsafe { HASH_CALLS } >= 1 && unsafe { HASH_SEED_LEN } == ent, "from_phrase: the checksum is the hash of exactly the entropy bytes");
                    let mut j = 0;
                    while j < ent {
                        let e = byte_of(&index, j);
                        assert!(m.buf[j] == e, "from_phrase: 11-bit big-endian indices concatenate to the entropy");
                        assert!(unsafe { HASH_SEED[j] } == e, "from_phrase: the hashed bytes are the entropy");
                        j += 1;
                    }
                    let mut j = 0;
                    while j < 32 {
                        assert!(m.buf[ent + j] == h[j], "from_phrase: the hash follows the entropy in the buffer");
                        j += 1;
                    }
                }
                Err(_) => assert!(!(all_found && checksum_ok), "from_phrase: a valid phrase was rejected"),
            }
        }
        kani::cover!(!valid_count(N) || res.is_ok());
        kani::cover!(!valid_count(N) || (res.is_err() && all_found));
        core::mem::forget(res);
    }
    macro_rules! from_phrase {
        ($($name:ident => $n:expr;)*) => {$(
            #[kani::proof]
            #[kani::unwind(42)]
            #[kani::stub(Language::split, split_contract)]
            #[kani::stub(super::wordlist::for_language, wl::any_wordlist)]
            #[kani::stub(super::wordlist::Wordlist::search, wl::search_contract)]
            #[kani::stub(hash_seed, hash_seed_contract)]
            #[kani::stub(std::backtrace::Backtrace::capture, crate::verif_common::no_backtrace)]
            #[kani::stub(alloc::fmt::format, crate::verif_common::no_format)]
            fn $name() { from_phrase_at::<$n>() }
        )*};
    }
    from_phrase! {
        c01_from_phrase_n0 => 0; c01_from_phrase_n1 => 1; c01_from_phrase_n2 => 2; c01_from_phrase_n3 => 3;
        c01_from_phrase_n4 => 4; c01_from_phrase_n5 => 5; c01_from_phrase_n6 => 6; c01_from_phrase_n7 => 7;
        c01_from_phrase_n8 => 8; c01_from_phrase_n9 => 9; c01_from_phrase_n10 => 10; c01_from_phrase_n11 => 11;
        c01_from_phrase_n12 => 12; c01_from_phrase_n13 => 13; c01_from_phrase_n14 => 14; c01_from_phrase_n15 => 15;
        c01_from_phrase_n16 => 16; c01_from_phrase_n17 => 17; c01_from_phrase_n18 => 18; c01_from_phrase_n19 => 19;
        c01_from_phrase_n20 => 20; c01_from_phrase_n21 => 21; c01_from_phrase_n22 => 22; c01_from_phrase_n23 => 23;
        c01_from_phrase_n24 => 24; c01_from_phrase_n25 => 25; c01_from_phrase_n26 => 26; c01_from_phrase_n27 => 27;
        c01_from_phrase_n28 => 28; c01_from_phrase_n29 => 29; c01_from_phrase_n30 => 30; c01_from_phrase_n31 => 31;
        c01_from_phrase_n32 => 32; c01_from_phrase_n33 => 33; c01_from_phrase_n34 => 34; c01_from_phrase_n35 => 35;
        c01_from_phrase_n36 => 36; c01_from_phrase_n37 => 37; c01_from_phrase_n38 => 38; c01_from_phrase_n39 => 39;
        c01_from_phrase_n40 => 40;
    }

    // ------------------------------------------------------------------ to_phrase / mnemonic_length / Display
    fn to_phrase_at<const LEN: usize>() {
        let buf: [u8; 64] = kani::any();
        let m = Mnemonic { language: Language::English, buf, len: LEN };
        let n = LEN * 3 / 4;
        assert!(m.mnemonic_length() == n, "mnemonic_length: reported length is the word count 3*len/4");
        let text = m.to_phrase();
        // words(entropy || hash): word i is bits 11i..11i+11 of the buffer
        assert!(unsafe { wl::WORD_CALLS } == n, "to_phrase: one word per 11 bits");
        let mut i = 0;
        while i < n {
            let mut w = 0usize;
            let mut t = 0;
            while t < 11 {
                let k = 11 * i + t;
                w = (w << 1) | ((buf[k / 8] >> (7 - k % 8)) & 1) as usize;
                t += 1;
            }
            assert!(unsafe { wl::WORD_INDEX[i] } == w, "to_phrase: word i is the 11-bit big-endian group i of entropy||SHA-256");
            i += 1;
        }
        // the words (each "a" by the word contract) joined by exactly one space, no trailing separator
        let t = text.as_bytes();
        assert!(t.len() == 2 * n - 1, "to_phrase: words joined by single spaces, no trailing separator");
        let mut i = 0;
        while i < t.len() {
            assert!(t[i] == if i % 2 == 0 { b'a' } else { b' ' }, "to_phrase: words joined by single spaces");
            i += 1;
        }
        kani::cover!(true);
    }
    macro_rules! to_phrase {
        ($($name:ident => $n:expr;)*) => {$(
            #[kani::proof]
            #[kani::unwind(50)]
            #[kani::stub(super::wordlist::for_language, wl::any_wordlist)]
            #[kani::stub(super::wordlist::Wordlist::word, wl::word_contract)]
            fn $name() { to_phrase_at::<$n>() }
        )*};
    }
    to_phrase! {
        c01_to_phrase_len16 => 16; c01_to_phrase_len20 => 20; c01_to_phrase_len24 => 24;
        c01_to_phrase_len28 => 28; c01_to_phrase_len32 => 32;
    }

    // parse o print = id at the level of the two contracts: the indices to_phrase emits for the buffer
    // from_phrase builds are the indices from_phrase consumed (BIP-39 bit layout is a bijection)
    fn layout_inverse_at<const N: usize>() {
        let idx: [u16; N] = kani::any();
        let mut index = [0usize; 24];
        let mut k = 0;
        while k < N {
            kani::assume(idx[k] < 2048);
            index[k] = idx[k] as usize;
            k += 1;
        }
        let ent = N * 4 / 3;
        let cs = N / 3;
        // buffer as built by from_phrase's postcondition, with a hash whose leading bits are the checksum
        let mut buf = [0u8; 64];
        let mut j = 0;
        while j < ent {
            buf[j] = byte_of(&index, j);
            j += 1;
        }
        let h0: u8 = kani::any();
        kani::assume((h0 >> (8 - cs)) == (index[N - 1] & ((1 << cs) - 1)) as u8);
        buf[ent] = h0;
        // words re-read per to_phrase's postcondition
        let mut i = 0;
        while i < N {
            let mut w = 0usize;
            let mut t = 0;
            while t < 11 {
                let k = 11 * i + t;
                w = (w << 1) | ((buf[k / 8] >> (7 - k % 8)) & 1) as usize;
                t += 1;
            }
            assert!(w == index[i], "BIP-39 layout: printing the parsed buffer yields the parsed words");
            i += 1;
        }
        kani::cover!(true);
    }
    macro_rules! layout_inverse {
        ($($name:ident => $n:expr;)*) => {$(
            #[kani::proof]
            #[kani::unwind(36)]
            fn $name() { layout_inverse_at::<$n>() }
        )*};
    }
    layout_inverse! {
        c01_layout_inverse_n12 => 12; c01_layout_inverse_n15 => 15; c01_layout_inverse_n18 => 18;
        c01_layout_inverse_n21 => 21; c01_layout_inverse_n24 => 24;
    }

    // ------------------------------------------------------------------ C12: Mnemonic::random, one harness per requested length
    fn random_at<const N: usize>() {
        let fails: bool = kani::any();
        let h: [u8; 32] = kani::any();
        unsafe {
            osrand::SOURCE_FAILS = fails;
            HASH_OUT = h;
        }
        let res = Mnemonic::random(Language::English, N);
        if !valid_count(N) {
            assert!(res.is_err(), "random: unsupported lengths are refused");
        } else {
            let ent = N * 4 / 3;
            assert!(res.is_ok() == !fails, "random: fails iff the OS entropy source fails");
            if let Ok(m) = &res {
                // (how many requests the bytes are fetched with is the code's business: the property is about the bytes)
                assert!(unsafe { osrand::ENTROPY_LEN } == ent, "random: exactly 4n/3 bytes are taken from the OS source for one generation");
                assert!(m.len == ent, "random: entropy length is 4n/3 bytes");
                assert!(unsafe { HASH_CALLS } >= 1 && unsafe { HASH_SEED_LEN } == ent, "random: checksum is the hash of exactly the entropy bytes");
                let mut j = 0;
                while j < ent {
                    assert!(m.buf[j] == unsafe { osrand::ENTROPY[j] }, "random: every entropy byte is the OS byte at that position (none constant or derived)");
                    assert!(unsafe { HASH_SEED[j] } == m.buf[j], "random: the hashed bytes are the entropy");
                    j += 1;
                }
                let mut j = 0;
                while j < 32 {
                    assert!(m.buf[ent + j] == h[j], "random: the hash follows the entropy in the buffer");
                    j += 1;
                }
            }
        }
        kani::cover!(!valid_count(N) || res.is_ok());
        kani::cover!(!valid_count(N) || res.is_err());
        core::mem::forget(res);
    }
    macro_rules! random {
        ($($name:ident => $n:expr;)*) => {$(
            #[kani::proof]
            #[kani::unwind(42)]
            #[kani::stub(crate::rand::getentropy, osrand::getentropy_contract)]
            #[kani::stub(hash_seed, hash_seed_contract)]
            #[kani::stub(std::backtrace::Backtrace::capture, crate::verif_common::no_backtrace)]
            #[kani::stub(alloc::fmt::format, crate::verif_common::no_format)]
            fn $name() { random_at::<$n>() }
        )*};
    }
    random! {
        c12_random_n0 => 0; c12_random_n1 => 1; c12_random_n11 => 11; c12_random_n12 => 12; c12_random_n13 => 13;
        c12_random_n14 => 14; c12_random_n15 => 15; c12_random_n16 => 16; c12_random_n17 => 17; c12_random_n18 => 18;
        c12_random_n19 => 19; c12_random_n20 => 20; c12_random_n21 => 21; c12_random_n22 => 22; c12_random_n23 => 23;
        c12_random_n24 => 24; c12_random_n25 => 25; c12_random_n32 => 32; c12_random_n40 => 40;
    }
}
