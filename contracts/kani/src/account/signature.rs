#[cfg(kani)]
mod verif_kani {
    use super::*;

    /// secp256k1 group order n, big-endian
    const N_BE: [u8; 32] = [
        0xff, 0xff, 0xff, 0xff, 0xff, 0xff, 0xff, 0xff, 0xff, 0xff, 0xff, 0xff, 0xff, 0xff, 0xff, 0xfe, 0xba, 0xae, 0xdc,
        0xe6, 0xaf, 0x48, 0xa0, 0x3b, 0xbf, 0xd2, 0x5e, 0x8c, 0xd0, 0x36, 0x41, 0x41,
    ];

    fn one32() -> [u8; 32] {
        let mut b = [0u8; 32];
        b[31] = 1;
        b
    }
    fn sig_with_parity(p: bool) -> Signature {
        Signature(
            ecdsa::Signature::from_scalars(one32(), one32()).unwrap(),
            RecoveryId::new(p, false),
        )
    }
    /// a < b as big-endian integers
    fn lt_be(a: &[u8], b: &[u8; 32]) -> bool {
        let mut i = 0;
        while i < 32 {
            if a[i] != b[i] {
                return a[i] < b[i];
            }
            i += 1;
        }
        false
    }
    fn is_zero(a: &[u8]) -> bool {
        let mut i = 0;
        while i < 32 {
            if a[i] != 0 {
                return false;
            }
            i += 1;
        }
        true
    }
    /// 0 < a < n
    fn valid_scalar(a: &[u8]) -> bool {
        !is_zero(a) && lt_be(a, &N_BE)
    }
    fn hexval(c: u8) -> Option<u8> {
        match c {
            b'0'..=b'9' => Some(c - b'0'),
            b'a'..=b'f' => Some(c - b'a' + 10),
            b'A'..=b'F' => Some(c - b'A' + 10),
            _ => None,
        }
    }
    fn hexdigit(v: u8) -> u8 {
        if v < 10 {
            b'0' + v
        } else {
            b'a' + (v - 10)
        }
    }

    // ------------------------------------------------------------------ C11: v
    /// largest chain id for which 35 + 2c + 1 still fits 256 bits: 2^255 - 19
    fn max_chain_id() -> U256 {
        U256::from_words(1u128 << 127, 0) - U256::new(19)
    }

    #[kani::proof]
    fn c11_v_exact_in_range() {
        let hi: u128 = kani::any();
        let lo: u128 = kani::any();
        let p: bool = kani::any();
        let c = U256::from_words(hi, lo);
        kani::assume(c <= max_chain_id());
        let v = sig_with_parity(p).v(Some(c));
        // exact over the naturals: v == 35 + 2c + p with every intermediate sum representable
        let two_c = c.checked_add(c).unwrap();
        let e = two_c.checked_add(U256::new(35 + p as u128)).unwrap();
        assert!(v == e, "v == 35 + 2*chainId + yParity exactly");
        kani::cover!(c == max_chain_id());
        kani::cover!(hi == 0 && lo == 1);
    }

    #[kani::proof]
    fn c11_v_none() {
        let p: bool = kani::any();
        let v = sig_with_parity(p).v(None);
        assert!(v == U256::new(27 + p as u128), "v == 27 + yParity without chain id");
        kani::cover!(p);
    }

    // ------------------------------------------------------------------ C15: FromStr
    /// The contract of Signature::from_str on exactly 130 characters of hex payload `t` (prefix already removed).
    fn check_payload(t: &[u8], res: Result<Signature, anyhow::Error>) {
        let mut d = [0u8; 65];
        let mut all_hex = true;
        let mut i = 0;
        while i < 65 {
            match (hexval(t[2 * i]), hexval(t[2 * i + 1])) {
                (Some(h), Some(l)) => d[i] = (h << 4) | l,
                _ => all_hex = false,
            }
            i += 1;
        }
        let denotes = all_hex && (d[64] == 27 || d[64] == 28) && valid_scalar(&d[0..32]) && valid_scalar(&d[32..64]);
        match &res {
            Ok(sig) => {
                assert!(denotes, "from_str: accepted text does not denote a signature (non-hex, v not 27/28, or r/s out of [1, n-1])");
                assert!(sig.r().to_be_bytes()[..] == d[0..32], "from_str: r is the first 32 bytes");
                assert!(sig.s().to_be_bytes()[..] == d[32..64], "from_str: s is the second 32 bytes");
                assert!(sig.y_parity() == U256::new((d[64] - 27) as u128), "from_str: yParity == v - 27");
            }
            Err(_) => assert!(!denotes, "from_str: text that denotes a signature was rejected"),
        }
        kani::cover!(res.is_ok());
        kani::cover!(res.is_err());
        core::mem::forget(res);
    }

    #[kani::proof]
    #[kani::unwind(133)]
    #[kani::stub(std::backtrace::Backtrace::capture, crate::verif_common::no_backtrace)]
    #[kani::stub(alloc::fmt::format, crate::verif_common::no_format)]
    fn c15_from_str_len130() {
        let t: [u8; 130] = kani::any();
        kani::assume(t.iter().all(|b| *b < 0x80));
        let s = unsafe { core::str::from_utf8_unchecked(&t) };
        check_payload(&t, Signature::from_str(s));
    }

    #[kani::proof]
    #[kani::unwind(135)]
    #[kani::stub(std::backtrace::Backtrace::capture, crate::verif_common::no_backtrace)]
    #[kani::stub(alloc::fmt::format, crate::verif_common::no_format)]
    fn c15_from_str_len132() {
        let t: [u8; 132] = kani::any();
        kani::assume(t.iter().all(|b| *b < 0x80));
        let s = unsafe { core::str::from_utf8_unchecked(&t) };
        let res = Signature::from_str(s);
        if t[0] == b'0' && t[1] == b'x' {
            check_payload(&t[2..], res);
        } else {
            assert!(res.is_err(), "from_str: 132 characters without 0x prefix is not a signature");
            core::mem::forget(res);
        }
    }

    #[kani::proof]
    #[kani::unwind(142)]
    #[kani::stub(std::backtrace::Backtrace::capture, crate::verif_common::no_backtrace)]
    #[kani::stub(alloc::fmt::format, crate::verif_common::no_format)]
    fn c15_from_str_other_lengths() {
        let t: [u8; 140] = kani::any();
        let l: usize = kani::any();
        kani::assume(l <= 140 && l != 130 && l != 132);
        kani::assume(t.iter().all(|b| *b < 0x80));
        let s = unsafe { core::str::from_utf8_unchecked(&t[..l]) };
        let res = Signature::from_str(s);
        assert!(res.is_err(), "from_str: wrong length must be rejected");
        kani::cover!(l == 131);
        kani::cover!(l == 0);
        core::mem::forget(res);
    }

    // ------------------------------------------------------------------ C15: FromStr, modular
    // callee contract of hex::decode_to_slice(data, out) (dependency): Ok(()) and `out` = the decoded bytes
    // iff `data` is exactly 2*|out| hex digits of either case, Err otherwise.  The stub returns any result the
    // contract allows for a caller that cannot see the digits (symbolic verdict + symbolic bytes) and records
    // its argument; the real function is checked against the same contract by c15_hex_contract_*.
    static mut HEX_CALLS: usize = 0;
    static mut HEX_IN: [u8; 140] = [0; 140];
    static mut HEX_IN_LEN: usize = 0;
    static mut HEX_OK: bool = false;
    static mut HEX_OUT: [u8; 65] = [0; 65];
    fn hex_decode_contract<T: AsRef<[u8]>>(data: T, out: &mut [u8]) -> Result<(), hex::FromHexError> {
        let d = data.as_ref();
        unsafe {
            HEX_CALLS += 1;
            HEX_IN_LEN = d.len();
            let mut i = 0;
            while i < d.len() && i < 140 {
                HEX_IN[i] = d[i];
                i += 1;
            }
        }
        let ok: bool = kani::any();
        if ok && d.len() == 2 * out.len() && out.len() == 65 {
            let bytes: [u8; 65] = kani::any();
            out.copy_from_slice(&bytes);
            unsafe {
                HEX_OK = true;
                HEX_OUT = bytes;
            }
            Ok(())
        } else {
            Err(hex::FromHexError::InvalidStringLength)
        }
    }

    fn from_str_modular_at<const L: usize>() {
        let t: [u8; L] = kani::any();
        kani::assume(t.iter().all(|b| *b < 0x80));
        let s = unsafe { core::str::from_utf8_unchecked(&t) };
        let res = Signature::from_str(s);
        let (calls, in_len, ok, d) = unsafe { (HEX_CALLS, HEX_IN_LEN, HEX_OK, HEX_OUT) };
        // the text handed to the hex decoder is the input with one optional leading "0x" removed
        let off = if L >= 2 && t[0] == b'0' && t[1] == b'x' { 2 } else { 0 };
        assert!(calls >= 1, "from_str: the text is hex-decoded");
        assert!(in_len == L - off, "from_str: optional 0x prefix removed, nothing else");
        let mut i = 0;
        while i < in_len {
            assert!(unsafe { HEX_IN[i] } == t[off + i], "from_str: payload handed to the decoder unchanged");
            i += 1;
        }
        let denotes = ok && (d[64] == 27 || d[64] == 28) && valid_scalar(&d[0..32]) && valid_scalar(&d[32..64]);
        match &res {
            Ok(sig) => {
                assert!(denotes, "from_str: accepted text does not denote a signature (v not 27/28, or r/s out of [1, n-1])");
                assert!(sig.r().to_be_bytes()[..] == d[0..32], "from_str: r is the first 32 bytes");
                assert!(sig.s().to_be_bytes()[..] == d[32..64], "from_str: s is the second 32 bytes");
                assert!(sig.y_parity() == U256::new((d[64] - 27) as u128), "from_str: yParity == v - 27");
            }
            Err(_) => assert!(!denotes, "from_str: text that denotes a signature was rejected"),
        }
        kani::cover!(res.is_ok());
        kani::cover!(res.is_err() && ok);
        core::mem::forget(res);
    }
    #[kani::proof]
    #[kani::unwind(134)]
    #[kani::stub(hex::decode_to_slice, hex_decode_contract)]
    #[kani::stub(std::backtrace::Backtrace::capture, crate::verif_common::no_backtrace)]
    #[kani::stub(alloc::fmt::format, crate::verif_common::no_format)]
    fn c15_from_str_modular_130() {
        from_str_modular_at::<130>()
    }
    #[kani::proof]
    #[kani::unwind(134)]
    #[kani::stub(hex::decode_to_slice, hex_decode_contract)]
    #[kani::stub(std::backtrace::Backtrace::capture, crate::verif_common::no_backtrace)]
    #[kani::stub(alloc::fmt::format, crate::verif_common::no_format)]
    fn c15_from_str_modular_132() {
        from_str_modular_at::<132>()
    }

    /// hex::decode_to_slice against the contract assumed above, for |out| = N
    fn hex_contract_at<const N: usize, const L: usize>() {
        let t: [u8; L] = kani::any();
        let mut out = [0u8; N];
        let res = hex::decode_to_slice(&t[..], &mut out);
        let mut all_hex = L == 2 * N;
        let mut d = [0u8; N];
        if L == 2 * N {
            let mut i = 0;
            while i < N {
                match (hexval(t[2 * i]), hexval(t[2 * i + 1])) {
                    (Some(h), Some(l)) => d[i] = (h << 4) | l,
                    _ => all_hex = false,
                }
                i += 1;
            }
        }
        assert!(res.is_ok() == all_hex, "hex::decode_to_slice: Ok iff exactly 2*|out| hex digits");
        if all_hex {
            assert!(out == d, "hex::decode_to_slice: decoded bytes");
        }
        kani::cover!(L != 2 * N || res.is_ok());
        kani::cover!(res.is_err());
    }
    #[kani::proof]
    #[kani::unwind(8)]
    fn c15_hex_contract_n2() {
        hex_contract_at::<2, 4>()
    }
    #[kani::proof]
    #[kani::unwind(8)]
    fn c15_hex_contract_n2_short() {
        hex_contract_at::<2, 3>()
    }
    #[kani::proof]
    #[kani::unwind(8)]
    fn c15_hex_contract_n2_long() {
        hex_contract_at::<2, 6>()
    }
    #[kani::proof]
    #[kani::unwind(134)]
    fn c15_hex_contract_n65() {
        hex_contract_at::<65, 130>()
    }

    // ------------------------------------------------------------------ C15: Display
    // callee contract of <ethnum::U256 as LowerHex>::fmt (dependency) under the flags this crate uses
    // ("{:0Wx}"): lower-case hex digits of the value, zero padded to the width.
    fn lowerhex_contract(v: &U256, f: &mut core::fmt::Formatter<'_>) -> core::fmt::Result {
        let b = v.to_be_bytes();
        let mut digits = [0u8; 64];
        let mut i = 0;
        while i < 32 {
            digits[2 * i] = hexdigit(b[i] >> 4);
            digits[2 * i + 1] = hexdigit(b[i] & 15);
            i += 1;
        }
        let mut first = 0;
        while first < 63 && digits[first] == b'0' {
            first += 1;
        }
        let width = f.width().unwrap_or(0);
        let n = if 64 - first > width { 64 - first } else { width };
        let n = if n > 64 { 64 } else { n };
        f.write_str(unsafe { core::str::from_utf8_unchecked(&digits[64 - n..]) })
    }

    #[kani::proof]
    #[kani::unwind(66)]
    #[kani::stub(<ethnum::U256 as core::fmt::LowerHex>::fmt, lowerhex_contract)]
    fn c15_display_exact() {
        let r: [u8; 32] = kani::any();
        let s: [u8; 32] = kani::any();
        let p: bool = kani::any();
        kani::assume(valid_scalar(&r) && valid_scalar(&s));
        let sig = Signature(ecdsa::Signature::from_scalars(r, s).unwrap(), RecoveryId::new(p, false));
        let text = sig.to_string();
        let t = text.as_bytes();
        assert!(t.len() == 132, "display: 0x + 64 + 64 + 2 characters");
        assert!(t[0] == b'0' && t[1] == b'x', "display: 0x prefix");
        let mut i = 0;
        while i < 32 {
            assert!(t[2 + 2 * i] == hexdigit(r[i] >> 4) && t[3 + 2 * i] == hexdigit(r[i] & 15), "display: 64 lower-case hex digits of r");
            assert!(t[66 + 2 * i] == hexdigit(s[i] >> 4) && t[67 + 2 * i] == hexdigit(s[i] & 15), "display: 64 lower-case hex digits of s");
            i += 1;
        }
        assert!(t[130] == b'1' && t[131] == if p { b'c' } else { b'b' }, "display: v = 27 + yParity as two hex digits");
        kani::cover!(p);
    }

    // accessor half of the contract used by the transaction harnesses: r(), s(), y_parity() return the stored scalars
    #[kani::proof]
    #[kani::unwind(34)]
    fn c15_accessors() {
        let r: [u8; 32] = kani::any();
        let s: [u8; 32] = kani::any();
        let p: bool = kani::any();
        kani::assume(valid_scalar(&r) && valid_scalar(&s));
        let sig = Signature(ecdsa::Signature::from_scalars(r, s).unwrap(), RecoveryId::new(p, false));
        assert!(sig.r().to_be_bytes() == r, "r() is the stored r");
        assert!(sig.s().to_be_bytes() == s, "s() is the stored s");
        assert!(sig.y_parity() == U256::new(p as u128), "y_parity() is the stored parity");
        kani::cover!(true);
    }
}
