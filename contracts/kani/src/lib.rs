// appended to src/lib.rs of the scratch copy: helpers shared by all harness modules of the library crate
#[cfg(kani)]
pub(crate) mod verif_common {
    /// stub for std::backtrace::Backtrace::capture (anyhow captures one per error)
    pub fn no_backtrace() -> std::backtrace::Backtrace {
        std::backtrace::Backtrace::disabled()
    }
    /// stub for core::slice::memchr::memchr (private std helper behind str::split/find): its specification,
    /// first index of the byte, without the alignment case split that makes CBMC explode
    pub fn naive_memchr(x: u8, text: &[u8]) -> Option<usize> {
        let mut i = 0;
        while i < text.len() {
            if text[i] == x {
                return Some(i);
            }
            i += 1;
        }
        None
    }
    /// stub for std::hash::RandomState::new (HashMap keys come from the OS; any fixed keys are a valid RandomState)
    pub fn fixed_random_state() -> std::hash::RandomState {
        unsafe { core::mem::transmute::<[u64; 2], std::hash::RandomState>([1, 2]) }
    }
    /// stub for <anyhow::Error as Drop>::drop: errors are leaked instead of freed (CBMC explores every candidate of the
    /// `object_drop` vtable slot wherever an error MAY be dropped; freeing memory is irrelevant to every contract)
    pub fn leak_anyhow(_e: &mut anyhow::Error) {}
    /// stub for alloc::fmt::format: error-message text is irrelevant to every contract
    pub fn no_format(_args: core::fmt::Arguments<'_>) -> String {
        String::new()
    }
}
