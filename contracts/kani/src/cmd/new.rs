#[cfg(kani)]
mod verif_kani {
    use super::*;

    fn hexval(c: u8) -> Option<u8> {
        match c {
            b'0'..=b'9' => Some(c - b'0'),
            b'a'..=b'f' => Some(c - b'a' + 10),
            b'A'..=b'F' => Some(c - b'A' + 10),
            _ => None,
        }
    }

    // ---- Prefix::from_str on "0x" followed by D arbitrary ASCII characters
    fn prefix_from_str_at<const D: usize, const L: usize>() {
        let digits: [u8; D] = kani::any();
        kani::assume(digits.iter().all(|b| *b < 0x80));
        let mut t = [0u8; L];
        t[0] = b'0';
        t[1] = b'x';
        let mut i = 0;
        while i < D {
            t[2 + i] = digits[i];
            i += 1;
        }
        let s = unsafe { core::str::from_utf8_unchecked(&t) };
        let res = Prefix::from_str(s);
        let mut all_hex = true;
        let mut i = 0;
        while i < D {
            if hexval(digits[i]).is_none() {
                all_hex = false;
            }
            i += 1;
        }
        match &res {
            Ok(p) => {
                assert!(all_hex, "vanity prefix: a prefix that is not hexadecimal is refused");
                assert!(p.bytes.len() == D / 2, "vanity prefix: one byte per two digits");
                let mut i = 0;
                while i < D / 2 {
                    assert!(p.bytes[i] == (hexval(digits[2 * i]).unwrap() << 4) | hexval(digits[2 * i + 1]).unwrap(), "vanity prefix: digit values in either case");
                    i += 1;
                }
                if D % 2 == 1 {
                    assert!(p.nibble == hexval(digits[D - 1]), "vanity prefix: odd trailing digit value in either case");
                } else {
                    assert!(p.nibble.is_none(), "vanity prefix: even number of digits has no trailing nibble");
                }
            }
            Err(_) => assert!(!all_hex, "vanity prefix: a hexadecimal prefix (digits in either case) was refused"),
        }
        kani::cover!(res.is_ok());
        kani::cover!(D == 0 || res.is_err());
        core::mem::forget(res);
    }
    macro_rules! prefix_from_str {
        ($($name:ident => $d:expr, $l:expr;)*) => {$(
            #[kani::proof]
            #[kani::unwind(45)]
            #[kani::stub(std::backtrace::Backtrace::capture, crate::verif_common::no_backtrace)]
            #[kani::stub(alloc::fmt::format, crate::verif_common::no_format)]
            fn $name() { prefix_from_str_at::<$d, $l>() }
        )*};
    }
    prefix_from_str! {
        c18_prefix_from_str_d0 => 0, 2;
        c18_prefix_from_str_d1 => 1, 3;
        c18_prefix_from_str_d2 => 2, 4;
        c18_prefix_from_str_d3 => 3, 5;
        c18_prefix_from_str_d4 => 4, 6;
        c18_prefix_from_str_d5 => 5, 7;
        c18_prefix_from_str_d6 => 6, 8;
        c18_prefix_from_str_d7 => 7, 9;
        c18_prefix_from_str_d8 => 8, 10;
        c18_prefix_from_str_d40 => 40, 42;
        c18_prefix_from_str_d41 => 41, 43;
    }

    // ---- text without the 0x prefix is refused (all ASCII strings of length L not starting with "0x")
    fn prefix_missing_0x_at<const L: usize>() {
        let t: [u8; L] = kani::any();
        kani::assume(t.iter().all(|b| *b < 0x80));
        kani::assume(!(L >= 2 && t[0] == b'0' && t[1] == b'x'));
        let s = unsafe { core::str::from_utf8_unchecked(&t) };
        let res = Prefix::from_str(s);
        assert!(res.is_err(), "vanity prefix: missing 0x is refused");
        kani::cover!(true);
        core::mem::forget(res);
    }
    macro_rules! prefix_missing_0x {
        ($($name:ident => $l:expr;)*) => {$(
            #[kani::proof]
            #[kani::unwind(8)]
            #[kani::stub(std::backtrace::Backtrace::capture, crate::verif_common::no_backtrace)]
            #[kani::stub(alloc::fmt::format, crate::verif_common::no_format)]
            fn $name() { prefix_missing_0x_at::<$l>() }
        )*};
    }
    prefix_missing_0x! {
        c18_prefix_missing_0x_len0 => 0;
        c18_prefix_missing_0x_len1 => 1;
        c18_prefix_missing_0x_len2 => 2;
        c18_prefix_missing_0x_len4 => 4;
    }

    // ---- Prefix::matches for K whole bytes (+ optional nibble) against all addresses
    fn matches_at<const K: usize>() {
        let bytes: [u8; K] = kani::any();
        let nibble: Option<u8> = kani::any();
        kani::assume(match nibble {
            Some(n) => n < 16,
            None => true,
        });
        let a: [u8; 20] = kani::any();
        let p = Prefix { bytes: bytes.to_vec(), nibble };
        let got = p.matches(Address(a));
        // the lower-case hex of the address starts with the requested digits
        let mut want = K <= 20;
        let mut i = 0;
        while i < K && i < 20 {
            if a[i] != bytes[i] {
                want = false;
            }
            i += 1;
        }
        if let Some(n) = nibble {
            if K < 20 {
                if a[K] >> 4 != n {
                    want = false;
                }
            } else {
                want = false;
            }
        }
        assert!(got == want, "vanity match: true iff the address begins with exactly the requested hex digits");
        kani::cover!(got || K > 20);
        kani::cover!(!got || K == 0);
    }
    macro_rules! matches_at {
        ($($name:ident => $k:expr;)*) => {$(
            #[kani::proof]
            #[kani::unwind(24)]
            fn $name() { matches_at::<$k>() }
        )*};
    }
    matches_at! {
        c18_matches_k0 => 0; c18_matches_k1 => 1; c18_matches_k2 => 2; c18_matches_k3 => 3; c18_matches_k4 => 4;
        c18_matches_k5 => 5; c18_matches_k6 => 6; c18_matches_k7 => 7; c18_matches_k8 => 8; c18_matches_k9 => 9;
        c18_matches_k10 => 10; c18_matches_k11 => 11; c18_matches_k12 => 12; c18_matches_k13 => 13; c18_matches_k14 => 14;
        c18_matches_k15 => 15; c18_matches_k16 => 16; c18_matches_k17 => 17; c18_matches_k18 => 18; c18_matches_k19 => 19;
        c18_matches_k20 => 20; c18_matches_k21 => 21; c18_matches_k22 => 22;
    }
}
