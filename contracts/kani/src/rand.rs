#[cfg(kani)]
pub(crate) mod verif_kani {
    use super::*;

    // ---- environment contract of getentropy(3): either fails (negative result, buffer untouched) or
    // succeeds and overwrites exactly `len` bytes with fresh bytes of the OS source, recorded in the ghost
    // stream ENTROPY (in request order).
    pub static mut ENTROPY: [u8; 64] = [0; 64];
    pub static mut ENTROPY_LEN: usize = 0;
    pub static mut REQUESTS: usize = 0;
    pub static mut LAST_REQUEST_LEN: usize = 0;
    pub static mut SOURCE_FAILS: bool = false;
    extern "C" {
        fn __errno_location() -> *mut c_int;
    }
    pub unsafe fn getentropy_contract(buffer: *mut u8, len: usize) -> c_int {
        REQUESTS += 1;
        LAST_REQUEST_LEN = len;
        if SOURCE_FAILS {
            // getentropy(3): "on error, -1 is returned and errno is set to indicate the error" - any error number
            // (EFAULT, EIO, ENOSYS, EINTR, ...): the caller must not be able to tell a failure it may ignore
            let e: c_int = kani::any();
            kani::assume(e > 0 && e < 4096);
            *__errno_location() = e;
            return -1;
        }
        let mut i = 0;
        while i < len {
            let b: u8 = kani::any();
            *buffer.add(i) = b;
            if ENTROPY_LEN < 64 {
                ENTROPY[ENTROPY_LEN] = b;
                ENTROPY_LEN += 1;
            }
            i += 1;
        }
        0
    }

    fn get_entropy_at<const L: usize>() {
        let fails: bool = kani::any();
        unsafe { SOURCE_FAILS = fails };
        let mut buf = [0xa5u8; 40];
        let res = get_entropy(&mut buf[..L]);
        assert!(res.is_ok() == !fails, "get_entropy: Ok iff the OS source succeeded");
        if !fails {
            assert!(unsafe { ENTROPY_LEN } == L, "get_entropy: exactly the buffer length is taken from the OS source");
            let mut i = 0;
            while i < L {
                assert!(buf[i] == unsafe { ENTROPY[i] }, "get_entropy: every byte of the buffer is a byte of the OS source, in order");
                i += 1;
            }
        }
        let mut i = L;
        while i < 40 {
            assert!(buf[i] == 0xa5, "get_entropy: nothing outside the slice is written");
            i += 1;
        }
        kani::cover!(res.is_ok());
        kani::cover!(res.is_err());
        core::mem::forget(res);
    }
    #[kani::proof]
    #[kani::unwind(42)]
    #[kani::stub(getentropy, getentropy_contract)]
    fn c12_get_entropy_16() {
        get_entropy_at::<16>()
    }
    #[kani::proof]
    #[kani::unwind(42)]
    #[kani::stub(getentropy, getentropy_contract)]
    fn c12_get_entropy_32() {
        get_entropy_at::<32>()
    }
    #[kani::proof]
    #[kani::unwind(42)]
    #[kani::stub(getentropy, getentropy_contract)]
    fn c12_get_entropy_0() {
        get_entropy_at::<0>()
    }
}
