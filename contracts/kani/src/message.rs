#[cfg(kani)]
mod verif_kani {
    use super::*;

    // ---- callee contract of ethdigest::Digest::of: a function of the input bytes; the stub records the input
    // and returns recorded symbolic bytes (determinism of Keccak is the only property used)
    static mut OF_CALLS: usize = 0;
    static mut OF_IN: [u8; 200] = [0; 200];
    static mut OF_IN_LEN: usize = 0;
    static mut OF_OUT: [u8; 32] = [0; 32];
    fn digest_of_recorder<T: AsRef<[u8]>>(data: T) -> Digest {
        let d = data.as_ref();
        unsafe {
            OF_CALLS += 1;
            OF_IN_LEN = d.len();
            let mut i = 0;
            while i < d.len() && i < 200 {
                OF_IN[i] = d[i];
                i += 1;
            }
            Digest(OF_OUT)
        }
    }

    fn digest_at<const L: usize>(dec: &[u8]) {
        let m: [u8; L] = kani::any();
        let out: [u8; 32] = kani::any();
        unsafe { OF_OUT = out };
        let r = EthereumMessage(&m[..]).signing_message();
        let prefix = b"\x19Ethereum Signed Message:\n";
        assert!(unsafe { OF_CALLS } >= 1, "digest: the preimage is hashed");
        assert!(unsafe { OF_IN_LEN } == 26 + dec.len() + L, "digest: preimage is prefix ++ decimal length ++ message");
        let mut i = 0;
        while i < 26 {
            assert!(unsafe { OF_IN[i] } == prefix[i], "digest: 0x19 \"Ethereum Signed Message:\\n\" prefix");
            i += 1;
        }
        let mut i = 0;
        while i < dec.len() {
            assert!(unsafe { OF_IN[26 + i] } == dec[i], "digest: decimal ASCII length of the message in bytes");
            i += 1;
        }
        let mut i = 0;
        while i < L {
            assert!(unsafe { OF_IN[26 + dec.len() + i] } == m[i], "digest: message bytes unchanged (arbitrary, non-UTF-8 included)");
            i += 1;
        }
        assert!(r.0 == out, "digest: the result is the hash of that preimage");
        kani::cover!(true);
    }
    macro_rules! digest_at {
        ($($name:ident => $l:expr, $d:expr;)*) => {$(
            #[kani::proof]
            #[kani::unwind(202)]
            #[kani::stub(ethdigest::Digest::of, digest_of_recorder)]
            fn $name() { digest_at::<$l>($d) }
        )*};
    }
    digest_at! {
        c10_digest_len0 => 0, b"0";
        c10_digest_len1 => 1, b"1";
        c10_digest_len9 => 9, b"9";
        c10_digest_len10 => 10, b"10";
        c10_digest_len11 => 11, b"11";
    }
}
