#[cfg(kani)]
mod verif_kani {
    use super::*;

    const N_BE: [u8; 32] = [
        0xff, 0xff, 0xff, 0xff, 0xff, 0xff, 0xff, 0xff, 0xff, 0xff, 0xff, 0xff, 0xff, 0xff, 0xff, 0xfe, 0xba, 0xae, 0xdc,
        0xe6, 0xaf, 0x48, 0xa0, 0x3b, 0xbf, 0xd2, 0x5e, 0x8c, 0xd0, 0x36, 0x41, 0x41,
    ];
    fn lt_n(a: &[u8; 32]) -> bool {
        let mut i = 0;
        while i < 32 {
            if a[i] != N_BE[i] {
                return a[i] < N_BE[i];
            }
            i += 1;
        }
        false
    }
    fn is_zero(a: &[u8]) -> bool {
        let mut i = 0;
        while i < a.len() {
            if a[i] != 0 {
                return false;
            }
            i += 1;
        }
        true
    }

    // ---- 32-byte secrets: accepted iff in [1, n-1]; the stored secret is the given value
    #[kani::proof]
    #[kani::unwind(34)]
    #[kani::stub(alloc::fmt::format, crate::verif_common::no_format)]
    fn c04_new_32_bytes() {
        let b: [u8; 32] = kani::any();
        let res = PrivateKey::new(b);
        let valid = !is_zero(&b) && lt_n(&b);
        match &res {
            Ok(k) => {
                assert!(valid, "private key: a 32-byte secret that is zero or not below the group order is rejected");
                assert!(k.secret() == b, "private key: the secret is exactly the given 32 bytes");
            }
            Err(_) => assert!(!valid, "private key: a secret in [1, n-1] was rejected"),
        }
        kani::cover!(res.is_ok());
        kani::cover!(res.is_err() && !is_zero(&b));
        core::mem::forget(res);
    }

    // ---- other lengths: rejected, or taken as the same big-endian integer
    fn new_other_len<const L: usize>() {
        let b: [u8; L] = kani::any();
        let res = PrivateKey::new(&b[..]);
        if let Ok(k) = &res {
            let s = k.secret();
            assert!(L <= 32, "private key: more than 32 bytes cannot be the same integer unless rejected");
            if L <= 32 {
                let mut i = 0;
                while i < 32 {
                    let want = if i < 32 - L { 0 } else { b[i - (32 - L)] };
                    assert!(s[i] == want, "private key: a shorter byte string is taken as the same big-endian integer");
                    i += 1;
                }
            }
        }
        kani::cover!(true);
        core::mem::forget(res);
    }
    macro_rules! new_other_len {
        ($($name:ident => $l:expr;)*) => {$(
            #[kani::proof]
            #[kani::unwind(66)]
            #[kani::stub(alloc::fmt::format, crate::verif_common::no_format)]
            fn $name() { new_other_len::<$l>() }
        )*};
    }
    new_other_len! {
        c04_new_len0 => 0; c04_new_len1 => 1; c04_new_len16 => 16; c04_new_len23 => 23; c04_new_len24 => 24;
        c04_new_len31 => 31; c04_new_len33 => 33; c04_new_len64 => 64;
    }

    // ---- address = last 20 bytes of keccak256 of the 64 coordinate bytes
    static mut ENC: [u8; 65] = [0; 65];
    fn encode_uncompressed_contract(_this: &PublicKey) -> [u8; 65] {
        unsafe { ENC }
    }
    fn public_stub(_this: &PrivateKey) -> PublicKey {
        // the point itself is dependency arithmetic (secret * G): never read here, encode_uncompressed is under contract
        unsafe { core::mem::zeroed() }
    }
    static mut OF_CALLS: usize = 0;
    static mut OF_LEN: usize = 0;
    static mut OF_IN: [u8; 70] = [0; 70];
    static mut OF_OUT: [u8; 32] = [0; 32];
    fn digest_of_recorder<T: AsRef<[u8]>>(data: T) -> Digest {
        let d = data.as_ref();
        unsafe {
            OF_CALLS += 1;
            OF_LEN = d.len();
            let mut i = 0;
            while i < d.len() && i < 70 {
                OF_IN[i] = d[i];
                i += 1;
            }
            Digest(OF_OUT)
        }
    }
    #[kani::proof]
    #[kani::unwind(72)]
    #[kani::stub(PrivateKey::public, public_stub)]
    #[kani::stub(PublicKey::encode_uncompressed, encode_uncompressed_contract)]
    #[kani::stub(ethdigest::Digest::of, digest_of_recorder)]
    fn c04_address_is_keccak_tail() {
        let mut enc: [u8; 65] = kani::any();
        enc[0] = 0x04; // SEC1 uncompressed tag (contract of encode_uncompressed)
        let out: [u8; 32] = kani::any();
        unsafe {
            ENC = enc;
            OF_OUT = out;
        }
        let mut one = [0u8; 32];
        one[31] = 1;
        let key = PrivateKey::new(one).unwrap();
        let a = key.address();
        assert!(unsafe { OF_CALLS } >= 1 && unsafe { OF_LEN } == 64, "address: Keccak-256 of exactly the 64 coordinate bytes");
        let mut i = 0;
        while i < 64 {
            assert!(unsafe { OF_IN[i] } == enc[1 + i], "address: the SEC1 tag byte is dropped, the coordinates hashed unchanged");
            i += 1;
        }
        let mut i = 0;
        while i < 20 {
            assert!(a.0[i] == out[12 + i], "address: the last 20 bytes of the hash");
            i += 1;
        }
        kani::cover!(true);
    }
}
