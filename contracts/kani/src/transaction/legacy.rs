#[cfg(kani)]
mod verif_kani {
    use super::*;
    use crate::transaction::rlp::verif_tokens as tk;
    use k256::ecdsa::{self, RecoveryId};

    fn any_u256() -> U256 {
        U256::from_words(kani::any(), kani::any())
    }
    fn scalar(b: u8) -> [u8; 32] {
        let mut s = [0u8; 32];
        s[31] = b;
        s
    }

    /// rlp_encode is the RLP list of, in this order: nonce, gasPrice, gas, to (empty string when absent), value, data, then
    /// (v, r, s) when signed, (chainId, 0, 0) when unsigned with a chain id, nothing otherwise.  Element encoders are
    /// recording token stubs (callee contracts, proved in C07); rlp::iter / rlp::list run for real.
    fn legacy_rlp_encode_at<const SIGNED: bool, const CHAIN: bool, const TO: bool>() {
        let data: [u8; 2] = kani::any();
        let dlen: usize = 2;
        let signed = SIGNED;
        let tx = LegacyTransaction {
            nonce: any_u256(),
            gas_price: any_u256(),
            gas: any_u256(),
            to: if TO { Some(Address(kani::any())) } else { None },
            value: any_u256(),
            data: data.to_vec(),
            chain_id: if CHAIN { Some(any_u256()) } else { None },
        };
        // invariant established by deserialization (c11_chain_id_invariant): v = 35 + 2c + 1 fits 256 bits
        if let Some(c) = tx.chain_id {
            kani::assume(c <= (U256::MAX - U256::new(36)) >> 1);
        }
        let parity: bool = kani::any();
        let (rb, sb): (u8, u8) = (kani::any(), kani::any());
        kani::assume(rb >= 1 && sb >= 1);
        let sig = Signature(ecdsa::Signature::from_scalars(scalar(rb), scalar(sb)).unwrap(), RecoveryId::new(parity, false));
        let out = tx.rlp_encode(if signed { Some(sig) } else { None });

        let n = if signed || tx.chain_id.is_some() { 9 } else { 6 };
        assert!(out.len() == 1 + n && out[0] == 0xc0 + n as u8, "legacy: one RLP list of 6 or 9 items and nothing else");
        assert!(tk::is_uint(out[1], tx.nonce), "legacy: item 0 is the nonce");
        assert!(tk::is_uint(out[2], tx.gas_price), "legacy: item 1 is gasPrice");
        assert!(tk::is_uint(out[3], tx.gas), "legacy: item 2 is gas");
        match &tx.to {
            Some(a) => assert!(tk::is_bytes(out[4], &a.0), "legacy: item 3 is the 20-byte recipient"),
            None => assert!(tk::is_bytes(out[4], &[]), "legacy: an absent recipient is the empty string"),
        }
        assert!(tk::is_uint(out[5], tx.value), "legacy: item 4 is value");
        assert!(tk::is_bytes(out[6], &data[..dlen]), "legacy: item 5 is the calldata");
        if signed {
            let v = match tx.chain_id {
                Some(c) => c + c + U256::new(35 + parity as u128),
                None => U256::new(27 + parity as u128),
            };
            assert!(tk::is_uint(out[7], v), "legacy signed: v = 35 + 2*chainId + yParity, or 27 + yParity without chain id");
            assert!(tk::is_uint(out[8], U256::new(rb as u128)), "legacy signed: r");
            assert!(tk::is_uint(out[9], U256::new(sb as u128)), "legacy signed: s");
        } else if let Some(c) = tx.chain_id {
            assert!(tk::is_uint(out[7], c) && tk::is_uint(out[8], U256::ZERO) && tk::is_uint(out[9], U256::ZERO), "legacy unsigned: EIP-155 tail (chainId, 0, 0)");
        }
        kani::cover!(true);
    }
    macro_rules! legacy_rlp_encode {
        ($($name:ident => $s:expr, $c:expr, $t:expr;)*) => {$(
            #[kani::proof]
            #[kani::unwind(36)]
            #[kani::stub(crate::transaction::rlp::uint, tk::uint_token)]
            #[kani::stub(crate::transaction::rlp::bytes, tk::bytes_token)]
            fn $name() { legacy_rlp_encode_at::<$s, $c, $t>() }
        )*};
    }
    legacy_rlp_encode! {
        c06_legacy_signed_chain => true, true, true;
        c06_legacy_signed_nochain => true, false, false;
        c06_legacy_unsigned_chain => false, true, false;
        c06_legacy_unsigned_nochain => false, false, true;
    }

    // ---- the chain id invariant established when a legacy transaction is deserialized
    static mut NUMOPT: (bool, u128, u128) = (false, 0, 0);
    fn numopt_contract<'de, D>(_d: D) -> Result<Option<U256>, D::Error>
    where
        D: Deserializer<'de>,
    {
        let some: bool = kani::any();
        let hi: u128 = kani::any();
        let lo: u128 = kani::any();
        unsafe { NUMOPT = (some, hi, lo) };
        Ok(if some { Some(U256::from_words(hi, lo)) } else { None })
    }
    #[kani::proof]
    #[kani::unwind(70)]
    #[kani::stub(crate::serialization::numopt::deserialize, numopt_contract)]
    #[kani::stub(alloc::fmt::format, crate::verif_common::no_format)]
    fn c11_chain_id_invariant() {
        let res = deserialize_chain_id(serde_json::Value::Null);
        let (some, hi, lo) = unsafe { NUMOPT };
        let c = U256::from_words(hi, lo);
        // 35 + 2c + 1 <= 2^256 - 1  <=>  c <= 2^255 - 19
        let fits = c <= U256::from_words(1u128 << 127, 0) - U256::new(19);
        match &res {
            Ok(None) => assert!(!some, "chain id: absent stays absent"),
            Ok(Some(x)) => assert!(some && *x == c && fits, "chain id: a present chain id is kept unchanged and 35 + 2c + 1 fits 256 bits"),
            Err(_) => assert!(some && !fits, "chain id: refused only when v = 35 + 2c + yParity cannot be represented"),
        }
        kani::cover!(matches!(res, Ok(Some(_))));
        kani::cover!(res.is_err());
        core::mem::forget(res);
    }
}
