#[cfg(kani)]
mod verif_kani {
    use super::*;
    use crate::transaction::rlp::verif_tokens as tk;
    use k256::ecdsa::{self, RecoveryId};

    fn any_u256() -> U256 {
        U256::from_words(kani::any(), kani::any())
    }
    fn scalar(b: u8) -> [u8; 32] {
        let mut s = [0u8; 32];
        s[31] = b;
        s
    }

    /// rlp_encode is the type byte 0x02 followed by the RLP list of the fields in the order the standard gives, the chain
    /// id first, then (yParity, r, s) when signed.  Element encoders and the access list encoder are recording token stubs
    /// (callee contracts: C07); rlp::iter / rlp::list and the concatenation run for real.
    fn rlp_encode_at<const SIGNED: bool, const TO: bool>() {
        let data: [u8; 2] = kani::any();
        let dlen: usize = 2;
        let signed = SIGNED;
        let tx = Eip1559Transaction {
            chain_id: any_u256(),
            nonce: any_u256(),
            max_priority_fee_per_gas: any_u256(),
            max_fee_per_gas: any_u256(),
            gas: any_u256(),
            to: if TO { Some(Address(kani::any())) } else { None },
            value: any_u256(),
            data: data.to_vec(),
            access_list: Default::default(),
        };
        let parity: bool = kani::any();
        let (rb, sb): (u8, u8) = (kani::any(), kani::any());
        kani::assume(rb >= 1 && sb >= 1);
        let sig = Signature(ecdsa::Signature::from_scalars(scalar(rb), scalar(sb)).unwrap(), RecoveryId::new(parity, false));
        let out = tx.rlp_encode(if signed { Some(sig) } else { None });

        let n = if signed { 9 + 3 } else { 9 };
        assert!(out.len() == 2 + n && out[0] == 0x02 && out[1] == 0xc0 + n as u8, "type byte 0x02, then one RLP list of 9 or 9+3 items, nothing else");
        assert!(tk::is_uint(out[2], tx.chain_id), "the chain id is the first signed field");
        assert!(tk::is_uint(out[3], tx.nonce), "item 1 is the nonce");
        assert!(tk::is_uint(out[4], tx.max_priority_fee_per_gas), "item 2 is maxPriorityFeePerGas");
        assert!(tk::is_uint(out[5], tx.max_fee_per_gas), "item 3 is maxFeePerGas");
        let o = 6;
        assert!(tk::is_uint(out[o], tx.gas), "gas");
        match &tx.to {
            Some(a) => assert!(tk::is_bytes(out[o + 1], &a.0), "20-byte recipient"),
            None => assert!(tk::is_bytes(out[o + 1], &[]), "an absent recipient is the empty string"),
        }
        assert!(tk::is_uint(out[o + 2], tx.value), "value");
        assert!(tk::is_bytes(out[o + 3], &data[..dlen]), "calldata");
        assert!(tk::is_access_list(out[o + 4], &tx.access_list), "access list");
        if signed {
            assert!(tk::is_uint(out[o + 5], U256::new(parity as u128)), "signed: yParity");
            assert!(tk::is_uint(out[o + 6], U256::new(rb as u128)), "signed: r");
            assert!(tk::is_uint(out[o + 7], U256::new(sb as u128)), "signed: s");
        }
        kani::cover!(true);
    }
    #[kani::proof]
    #[kani::unwind(36)]
    #[kani::stub(crate::transaction::rlp::uint, tk::uint_token)]
    #[kani::stub(crate::transaction::rlp::bytes, tk::bytes_token)]
    #[kani::stub(crate::transaction::accesslist::AccessList::rlp_encode, tk::access_list_token)]
    fn c06_eip1559_signed() {
        rlp_encode_at::<true, true>()
    }
    #[kani::proof]
    #[kani::unwind(36)]
    #[kani::stub(crate::transaction::rlp::uint, tk::uint_token)]
    #[kani::stub(crate::transaction::rlp::bytes, tk::bytes_token)]
    #[kani::stub(crate::transaction::accesslist::AccessList::rlp_encode, tk::access_list_token)]
    fn c06_eip1559_unsigned() {
        rlp_encode_at::<false, false>()
    }
}
