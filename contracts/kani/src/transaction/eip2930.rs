#[cfg(kani)]
mod verif_kani {
    use super::*;
    use crate::transaction::rlp::verif_tokens as tk;
    use k256::ecdsa::{self, RecoveryId};

    fn any_u256() -> U256 {
        U256::from_words(kani::any(), kani::any())
    }
    fn scalar(b: u8) -> [u8; 32] {
        let mut s = [0u8; 32];
        s[31] = b;
        s
    }

    /// rlp_encode is the type byte 0x01 followed by the RLP list of, in this order: chainId, nonce, gasPrice, gas, to
    /// (empty string when absent), value, data, accessList, then (yParity, r, s) when signed and nothing otherwise.
    /// Element encoders, AccessList::rlp_encode and rlp::iter are recording token stubs (callee contracts; C07).
    fn eip2930_rlp_encode_at<const SIGNED: bool, const TO: bool>() {
        let data: [u8; 2] = kani::any();
        let tx = Eip2930Transaction {
            chain_id: any_u256(),
            nonce: any_u256(),
            gas_price: any_u256(),
            gas: any_u256(),
            to: if TO { Some(Address(kani::any())) } else { None },
            value: any_u256(),
            data: data.to_vec(),
            access_list: AccessList(Vec::new()),
        };
        let parity: bool = kani::any();
        let (rb, sb): (u8, u8) = (kani::any(), kani::any());
        kani::assume(rb >= 1 && sb >= 1);
        let sig = Signature(ecdsa::Signature::from_scalars(scalar(rb), scalar(sb)).unwrap(), RecoveryId::new(parity, false));
        let out = tx.rlp_encode(if SIGNED { Some(sig) } else { None });

        assert!(out.len() == 2 && out[0] == 0x01 && tk::is_list(out[1], 5, if SIGNED { 11 } else { 8 }), "eip2930: type byte 0x01 followed by exactly one RLP list");
        let (calls, n, it) = unsafe { (tk::LIST_CALLS, tk::NITEMS, tk::ITEMS) };
        assert!(calls == 1, "eip2930: one list");
        assert!(n == if SIGNED { 11 } else { 8 }, "eip2930: 8 fields, 11 when signed");
        assert!(tk::is_uint(it[0], tx.chain_id), "eip2930: item 0 is chainId");
        assert!(tk::is_uint(it[1], tx.nonce), "eip2930: item 1 is the nonce");
        assert!(tk::is_uint(it[2], tx.gas_price), "eip2930: item 2 is gasPrice");
        assert!(tk::is_uint(it[3], tx.gas), "eip2930: item 3 is gas");
        match &tx.to {
            Some(a) => assert!(tk::is_bytes(it[4], &a.0), "eip2930: item 4 is the 20-byte recipient"),
            None => assert!(tk::is_bytes(it[4], &[]), "eip2930: an absent recipient is the empty string"),
        }
        assert!(tk::is_uint(it[5], tx.value), "eip2930: item 5 is value");
        assert!(tk::is_bytes(it[6], &data[..]), "eip2930: item 6 is the calldata");
        assert!(tk::is_access_list(it[7], &tx.access_list), "eip2930: item 7 is the access list of this transaction");
        if SIGNED {
            assert!(tk::is_uint(it[8], U256::new(parity as u128)), "eip2930 signed: yParity");
            assert!(tk::is_uint(it[9], U256::new(rb as u128)), "eip2930 signed: r");
            assert!(tk::is_uint(it[10], U256::new(sb as u128)), "eip2930 signed: s");
        }
        kani::cover!(true);
    }
    macro_rules! eip2930_rlp_encode {
        ($($name:ident => $s:expr, $t:expr;)*) => {$(
            #[kani::proof]
            #[kani::unwind(36)]
            #[kani::stub(crate::transaction::rlp::uint, tk::uint_token)]
            #[kani::stub(crate::transaction::rlp::bytes, tk::bytes_token)]
            #[kani::stub(crate::transaction::rlp::iter, tk::iter_token)]
            #[kani::stub(crate::transaction::accesslist::AccessList::rlp_encode, tk::access_list_token)]
            fn $name() { eip2930_rlp_encode_at::<$s, $t>() }
        )*};
    }
    eip2930_rlp_encode! {
        c06_eip2930_signed_to => true, true;
        c06_eip2930_signed_create => true, false;
        c06_eip2930_unsigned_to => false, true;
        c06_eip2930_unsigned_create => false, false;
    }
}
