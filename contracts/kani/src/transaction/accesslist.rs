#[cfg(kani)]
mod verif_kani {
    use super::*;
    use crate::transaction::rlp::verif_tokens as tk;

    /// AccessList::rlp_encode is the list of, per entry in order, the two-item list [address as a 20-byte string, list of
    /// the entry's storage keys as 32-byte strings in order] - nothing dropped, merged, reordered or added.  rlp::bytes,
    /// rlp::list and rlp::iter are recording callee contracts (C07); addresses and keys are symbolic.
    fn access_list_at<const E: usize>(keys: [usize; E]) {
        let mut entries: Vec<(Address, Vec<StorageSlot>)> = Vec::with_capacity(E);
        let mut e = 0;
        while e < E {
            let mut slots = Vec::with_capacity(keys[e]);
            let mut j = 0;
            while j < keys[e] {
                slots.push(StorageSlot(kani::any()));
                j += 1;
            }
            entries.push((Address(kani::any()), slots));
            e += 1;
        }
        let al = AccessList(entries);
        let out = al.rlp_encode();
        assert!(out.len() == 1 && tk::is_list(out[0], 5, E), "access list: one list with one item per entry");
        let mut e = 0;
        while e < E {
            let ent = tk::child(out[0], e);
            assert!(tk::is_list(ent, 4, 2), "access list: each entry is a two-item list");
            assert!(tk::is_bytes(tk::child(ent, 0), &al.0[e].0 .0), "access list: first item of entry is its address");
            let ks = tk::child(ent, 1);
            assert!(tk::is_list(ks, 5, keys[e]), "access list: second item of entry is the list of all its storage keys");
            let mut j = 0;
            while j < keys[e] {
                assert!(tk::is_bytes(tk::child(ks, j), &al.0[e].1[j].0), "access list: storage keys in order, unchanged");
                j += 1;
            }
            e += 1;
        }
        kani::cover!(true);
        core::mem::forget(al);
    }
    macro_rules! access_list {
        ($($name:ident => $e:expr, $k:expr;)*) => {$(
            #[kani::proof]
            #[kani::unwind(36)]
            #[kani::stub(crate::transaction::rlp::bytes, tk::bytes_token)]
            #[kani::stub(crate::transaction::rlp::iter, tk::iter_token)]
            #[kani::stub(crate::transaction::rlp::list, tk::list_token)]
            fn $name() { access_list_at::<$e>($k) }
        )*};
    }
    access_list! {
        c06_access_list_empty => 0, [];
        c06_access_list_e1_k0 => 1, [0];
        c06_access_list_e1_k2 => 1, [2];
        c06_access_list_e1_k3 => 1, [3];
        c06_access_list_e2_k00 => 2, [0, 0];
        c06_access_list_e2_k10 => 2, [1, 0];
    }
}
