#[cfg(kani)]
mod verif_kani {
    use super::*;

    // ---- executable Yellow-Paper vocabulary (independent of the code under test) ----
    /// number of bytes of the minimal big-endian representation (0 for 0)
    pub fn nbytes128(x: u128) -> usize {
        let mut k = 0;
        while k < 16 && (x >> (8 * k)) != 0 {
            k += 1;
        }
        k
    }
    pub fn nbytes256(hi: u128, lo: u128) -> usize {
        if hi != 0 {
            16 + nbytes128(hi)
        } else {
            nbytes128(lo)
        }
    }
    /// byte j (0 = least significant) of the 256-bit value (hi, lo)
    pub fn byte256(hi: u128, lo: u128, j: usize) -> u8 {
        if j < 16 {
            (lo >> (8 * j)) as u8
        } else {
            (hi >> (8 * (j - 16))) as u8
        }
    }
    /// checks `out == hdr(n, off) ++ ...` prefix; returns header length
    pub fn check_hdr(out: &[u8], n: usize, off: u8) -> usize {
        if n < 56 {
            assert!(out.len() >= 1, "header: short form has one byte");
            assert!(out[0] == off + n as u8, "header: short form byte is offset + length");
            1
        } else {
            let k = nbytes128(n as u128);
            assert!(out.len() >= 1 + k, "header: long form length");
            assert!(out[0] == off + 55 + k as u8, "header: long form first byte is offset + 55 + length-of-length");
            let mut i = 0;
            while i < k {
                assert!(out[1 + i] == (n >> (8 * (k - 1 - i))) as u8, "header: minimal big-endian length bytes");
                i += 1;
            }
            1 + k
        }
    }

    #[kani::proof]
    #[kani::unwind(18)]
    fn c07_len_complete() {
        let n: usize = kani::any();
        let list: bool = kani::any();
        let off: u8 = if list { 0xc0 } else { 0x80 };
        let out = len(n, off);
        let h = check_hdr(&out, n, off);
        assert!(out.len() == h, "header: nothing after the header");
        kani::cover!(n >= 56);
        kani::cover!(n < 56);
    }

    #[kani::proof]
    #[kani::unwind(34)]
    fn c07_uint_complete() {
        let hi: u128 = kani::any();
        let lo: u128 = kani::any();
        let out = uint(U256::from_words(hi, lo));
        let k = nbytes256(hi, lo);
        if k == 0 {
            assert!(out.len() == 1 && out[0] == 0x80, "uint: zero is the empty string");
        } else if k == 1 && (lo as u8) < 0x80 {
            assert!(out.len() == 1 && out[0] == lo as u8, "uint: single byte below 0x80 is itself");
        } else {
            assert!(out.len() == 1 + k, "uint: length is header + minimal bytes");
            assert!(out[0] == 0x80 + k as u8, "uint: short string header");
            let mut i = 0;
            while i < k {
                assert!(out[1 + i] == byte256(hi, lo, k - 1 - i), "uint: minimal big-endian bytes, no leading zero");
                i += 1;
            }
        }
        kani::cover!(k == 32);
        kani::cover!(k == 0);
    }

    // bytes(b) at one concrete length with fully symbolic content (the unbounded proof is the Verus unit;
    // these pairings exist to produce counterexamples)
    fn bytes_at<const L: usize>() {
        let data: [u8; L] = kani::any();
        let out = bytes(&data);
        if L == 1 && data[0] < 0x80 {
            assert!(out.len() == 1 && out[0] == data[0], "bytes: single byte below 0x80 is itself");
        } else {
            let h = check_hdr(&out, L, 0x80);
            assert!(out.len() == h + L, "bytes: header + payload");
            let mut i = 0;
            while i < L {
                assert!(out[h + i] == data[i], "bytes: payload copied unchanged");
                i += 1;
            }
        }
        kani::cover!(true);
    }
    #[kani::proof]
    #[kani::unwind(4)]
    fn c07_bytes_len0() {
        bytes_at::<0>()
    }
    #[kani::proof]
    #[kani::unwind(4)]
    fn c07_bytes_len1() {
        bytes_at::<1>()
    }
    #[kani::proof]
    #[kani::unwind(4)]
    fn c07_bytes_len2() {
        bytes_at::<2>()
    }
    #[kani::proof]
    #[kani::unwind(58)]
    fn c07_bytes_len55() {
        bytes_at::<55>()
    }
    #[kani::proof]
    #[kani::unwind(58)]
    fn c07_bytes_len56() {
        bytes_at::<56>()
    }

    fn list_at<const A: usize, const B: usize, const C: usize>(n: usize) {
        let a: [u8; A] = kani::any();
        let b: [u8; B] = kani::any();
        let c: [u8; C] = kani::any();
        let all: [&[u8]; 3] = [&a, &b, &c];
        let items = &all[..n];
        let out = list(items);
        let mut total = 0;
        let mut i = 0;
        while i < n {
            total += items[i].len();
            i += 1;
        }
        let h = check_hdr(&out, total, 0xc0);
        assert!(out.len() == h + total, "list: header + concatenated items");
        let mut pos = h;
        let mut i = 0;
        while i < n {
            let mut j = 0;
            while j < items[i].len() {
                assert!(out[pos + j] == items[i][j], "list: items concatenated in order");
                j += 1;
            }
            pos += items[i].len();
            i += 1;
        }
        kani::cover!(true);
    }
    #[kani::proof]
    #[kani::unwind(5)]
    fn c07_list_empty() {
        list_at::<1, 1, 1>(0)
    }
    #[kani::proof]
    #[kani::unwind(5)]
    fn c07_list_small() {
        list_at::<1, 3, 2>(3)
    }
    #[kani::proof]
    #[kani::unwind(22)]
    fn c07_list_long() {
        list_at::<20, 20, 20>(3)
    }

    #[kani::proof]
    #[kani::unwind(5)]
    fn c07_iter_small() {
        let a: [u8; 1] = kani::any();
        let b: [u8; 2] = kani::any();
        let out = iter([a.to_vec(), b.to_vec()]);
        let expect = list(&[&a[..], &b[..]]);
        assert!(out == expect, "iter(xs) == list(xs)");
        kani::cover!(true);
    }

    /// rlp::iter over N items of two symbolic bytes each: the output is hdr(2N, 0xc0) followed by every item, in order -
    /// none dropped, repeated or reordered (the contract the typed-transaction / access-list harnesses assume of iter)
    fn iter_items_at<const N: usize>() {
        let items: [[u8; 2]; N] = kani::any();
        let out = iter(items.iter());
        let h = check_hdr(&out, 2 * N, 0xc0);
        assert!(out.len() == h + 2 * N, "iter: header followed by exactly the items");
        let mut i = 0;
        while i < N {
            assert!(out[h + 2 * i] == items[i][0] && out[h + 2 * i + 1] == items[i][1], "iter: every item, in order");
            i += 1;
        }
        kani::cover!(true);
    }
    macro_rules! iter_items {
        ($($name:ident => $n:expr, $u:expr;)*) => {$(
            #[kani::proof]
            #[kani::unwind($u)]
            fn $name() { iter_items_at::<$n>() }
        )*};
    }
    iter_items! {
        c07_iter_n0 => 0, 4;
        c07_iter_n1 => 1, 5;
        c07_iter_n12 => 12, 27;
        c07_iter_n17 => 17, 37;
        c07_iter_n28 => 28, 59;
        c07_iter_n40 => 40, 83;
    }

    // ---- cross-checks of the interface contracts the Verus unit assumes ----
    #[kani::proof]
    #[kani::unwind(10)]
    fn xc_usize_lz_bytes() {
        let n: usize = kani::any();
        let lz = n.leading_zeros();
        if n == 0 {
            assert!(lz == 64, "usize::leading_zeros(0) == 64");
        } else {
            // bitlen(n) == 64 - lz  <=>  top set bit is bit 63 - lz
            assert!(lz < 64 && (n >> (63 - lz)) == 1, "usize::leading_zeros == 64 - bitlen");
        }
        let b = n.to_be_bytes();
        let mut i = 0;
        while i < 8 {
            assert!(b[i] == (n >> (8 * (7 - i))) as u8, "usize::to_be_bytes == be_fix(n, 8)");
            i += 1;
        }
        kani::cover!(n > 1 << 40);
    }

    #[kani::proof]
    #[kani::unwind(34)]
    fn xc_u256_lz_bytes() {
        let hi: u128 = kani::any();
        let lo: u128 = kani::any();
        let v = U256::from_words(hi, lo);
        let lz = v.leading_zeros();
        if hi == 0 && lo == 0 {
            assert!(lz == 256, "U256::leading_zeros(0) == 256");
        } else if hi != 0 {
            assert!(lz < 128 && (hi >> (127 - lz)) == 1, "U256::leading_zeros == 256 - bitlen (high word)");
        } else {
            assert!(lz >= 128 && lz < 256 && (lo >> (255 - lz)) == 1, "U256::leading_zeros == 256 - bitlen (low word)");
        }
        let b = v.to_be_bytes();
        let mut i = 0;
        while i < 32 {
            assert!(b[i] == byte256(hi, lo, 31 - i), "U256::to_be_bytes == be_fix(n, 32)");
            i += 1;
        }
        kani::cover!(hi != 0);
    }
}

#[cfg(kani)]
pub(crate) mod verif_tokens {
    use super::*;

    // ---- callee contracts of the element encoders as *recording token stubs*: the k-th call records its argument and
    // returns the one-byte string [k].  A caller's output is then a list of tokens, and its postcondition can state which
    // value sits at which position.  (That the real encoders produce the Yellow-Paper encoding of those values is C07.)
    pub static mut CALLS: usize = 0;
    pub static mut KIND: [u8; 24] = [0; 24]; // 1 = uint, 2 = bytes, 3 = access list
    pub static mut UVAL: [(u128, u128); 24] = [(0, 0); 24];
    pub static mut BLEN: [usize; 24] = [0; 24];
    pub static mut BVAL: [[u8; 32]; 24] = [[0; 32]; 24];
    pub static mut APTR: [usize; 24] = [0; 24];
    pub fn uint_token(value: U256) -> Vec<u8> {
        unsafe {
            let k = CALLS;
            CALLS += 1;
            if k < 24 {
                KIND[k] = 1;
                UVAL[k] = (*value.high(), *value.low());
            }
            vec![k as u8]
        }
    }
    pub fn bytes_token(bytes: &[u8]) -> Vec<u8> {
        unsafe {
            let k = CALLS;
            CALLS += 1;
            if k < 24 {
                KIND[k] = 2;
                BLEN[k] = bytes.len();
                let mut i = 0;
                while i < bytes.len() && i < 32 {
                    BVAL[k][i] = bytes[i];
                    i += 1;
                }
            }
            vec![k as u8]
        }
    }
    pub fn access_list_token(this: &crate::transaction::accesslist::AccessList) -> Vec<u8> {
        unsafe {
            let k = CALLS;
            CALLS += 1;
            if k < 24 {
                KIND[k] = 3;
                APTR[k] = this as *const _ as usize;
            }
            vec![k as u8]
        }
    }
    // ---- callee contract of rlp::iter as a recording *list token*: records the one-byte tokens of the items it is
    // handed, in order, and returns the one-byte string [0xee].  (That the real rlp::iter / rlp::list produce
    // hdr(total, 0xc0) ++ concat(items) is C07: the Verus obligation on `list` and the `c07_iter_*` pairings.)
    pub static mut LIST_CALLS: usize = 0;
    pub static mut NITEMS: usize = 0;
    pub static mut ITEMS: [u8; 16] = [0xff; 16];
    // node table for nested lists: KIND 4 = rlp::list, 5 = rlp::iter; children are the one-byte tokens of the items
    pub static mut CHILD_N: [usize; 24] = [0; 24];
    pub static mut CHILD: [[u8; 16]; 24] = [[0xff; 16]; 24];
    fn tok_of(s: &[u8]) -> u8 {
        if s.len() == 1 {
            s[0]
        } else {
            0xfe
        }
    }
    /// callee contract of rlp::iter; the k-th encoder call overall, returns the one-byte string [k] (the typed-transaction
    /// harnesses, where it is the only list, additionally read the items of the last call from ITEMS / NITEMS)
    pub fn iter_token<U, I>(items: I) -> Vec<u8>
    where
        U: AsRef<[u8]>,
        I: IntoIterator<Item = U>,
    {
        unsafe {
            LIST_CALLS += 1;
            let mut toks = [0xffu8; 16];
            let mut n = 0;
            for it in items {
                if n < 16 {
                    toks[n] = tok_of(it.as_ref());
                }
                n += 1;
            }
            // the items are encoded (and take their numbers) before the list that contains them
            let k = CALLS;
            CALLS += 1;
            if k < 24 {
                KIND[k] = 5;
                CHILD_N[k] = n;
                CHILD[k] = toks;
            }
            ITEMS = toks;
            NITEMS = n;
            vec![k as u8]
        }
    }
    /// callee contract of rlp::list, same recording
    pub fn list_token(items: &[&[u8]]) -> Vec<u8> {
        unsafe {
            let k = CALLS;
            CALLS += 1;
            if k < 24 {
                KIND[k] = 4;
                CHILD_N[k] = items.len();
                let mut i = 0;
                while i < items.len() && i < 16 {
                    CHILD[k][i] = tok_of(items[i]);
                    i += 1;
                }
            }
            vec![k as u8]
        }
    }
    pub fn is_list(tok: u8, kind: u8, n: usize) -> bool {
        let k = tok as usize;
        k < 24 && unsafe { KIND[k] == kind && CHILD_N[k] == n }
    }
    pub fn child(tok: u8, i: usize) -> u8 {
        unsafe { CHILD[tok as usize % 24][i % 16] }
    }
    pub fn is_uint(tok: u8, v: U256) -> bool {
        let k = tok as usize;
        k < 24 && unsafe { KIND[k] == 1 && UVAL[k] == (*v.high(), *v.low()) }
    }
    pub fn is_bytes(tok: u8, b: &[u8]) -> bool {
        let k = tok as usize;
        if !(k < 24 && unsafe { KIND[k] == 2 && BLEN[k] == b.len() }) {
            return false;
        }
        let mut i = 0;
        while i < b.len() && i < 32 {
            if unsafe { BVAL[k][i] } != b[i] {
                return false;
            }
            i += 1;
        }
        true
    }
    pub fn is_access_list(tok: u8, a: &crate::transaction::accesslist::AccessList) -> bool {
        let k = tok as usize;
        k < 24 && unsafe { KIND[k] == 3 && APTR[k] == a as *const _ as usize }
    }
}
