#[cfg(kani)]
mod verif_kani {
    use super::*;
    use hdwallet::hdk::{Component, Path as HdPath};
    use hdwallet::mnemonic::Seed;

    // ---- callee contracts (recording stubs) for the key-selection data flow of AccountOptions::private_key
    static mut SEED_CALLS: usize = 0;
    static mut SEED_SELF: usize = 0;
    static mut SEED_PW: [u8; 8] = [0; 8];
    static mut SEED_PW_LEN: usize = 0;
    static mut SEED_OUT: [u8; 64] = [0; 64];
    fn seed_recorder(this: &Mnemonic, password: impl AsRef<str>) -> Seed {
        let pw = password.as_ref().as_bytes();
        unsafe {
            SEED_CALLS += 1;
            SEED_SELF = this as *const Mnemonic as usize;
            SEED_PW_LEN = pw.len();
            let mut i = 0;
            while i < pw.len() && i < 8 {
                SEED_PW[i] = pw[i];
                i += 1;
            }
            // Seed is a private newtype over [u8; 64]
            core::mem::transmute::<[u8; 64], Seed>(SEED_OUT)
        }
    }
    fn tagged_path(tag: u32) -> HdPath {
        // Path is a private newtype over Vec<Component>
        unsafe { core::mem::transmute::<Vec<Component>, HdPath>(vec![Component::Normal(tag)]) }
    }
    const TAG_FOR_INDEX: u32 = 0x1111;
    const TAG_PARSED: u32 = 0x2222;
    static mut FOR_INDEX_CALLS: usize = 0;
    static mut FOR_INDEX_ARG: usize = 0;
    static mut FOR_INDEX_OK: bool = true;
    fn for_index_recorder(index: usize) -> Result<HdPath> {
        unsafe {
            FOR_INDEX_CALLS += 1;
            FOR_INDEX_ARG = index;
            if FOR_INDEX_OK {
                Ok(tagged_path(TAG_FOR_INDEX))
            } else {
                Err(anyhow::Error::new(core::fmt::Error))
            }
        }
    }
    static mut PARSE_CALLS: usize = 0;
    static mut PARSE_ARG: [u8; 8] = [0; 8];
    static mut PARSE_ARG_LEN: usize = 0;
    static mut PARSE_OK: bool = true;
    fn path_parse_recorder(s: &str) -> Result<HdPath> {
        unsafe {
            PARSE_CALLS += 1;
            PARSE_ARG_LEN = s.len();
            let b = s.as_bytes();
            let mut i = 0;
            while i < b.len() && i < 8 {
                PARSE_ARG[i] = b[i];
                i += 1;
            }
            if PARSE_OK {
                Ok(tagged_path(TAG_PARSED))
            } else {
                Err(anyhow::Error::new(core::fmt::Error))
            }
        }
    }
    static mut DERIVE_CALLS: usize = 0;
    static mut DERIVE_SEED: [u8; 64] = [0; 64];
    static mut DERIVE_SEED_LEN: usize = 0;
    static mut DERIVE_PATH_TAG: u32 = 0;
    static mut DERIVE_OK: bool = true;
    static mut DERIVE_KEY: [u8; 32] = [0; 32];
    fn derive_recorder(seed: impl AsRef<[u8]>, path: &HdPath) -> Result<PrivateKey> {
        let s = seed.as_ref();
        unsafe {
            DERIVE_CALLS += 1;
            DERIVE_SEED_LEN = s.len();
            let mut i = 0;
            while i < s.len() && i < 64 {
                DERIVE_SEED[i] = s[i];
                i += 1;
            }
            DERIVE_PATH_TAG = match path.components().next() {
                Some(Component::Normal(t)) => t,
                _ => 0,
            };
            if DERIVE_OK {
                PrivateKey::new(DERIVE_KEY)
            } else {
                Err(anyhow::Error::new(core::fmt::Error))
            }
        }
    }

    #[kani::proof]
    #[kani::unwind(66)]
    #[kani::stub(hdwallet::mnemonic::Mnemonic::seed, seed_recorder)]
    #[kani::stub(hdwallet::hdk::Path::for_index, for_index_recorder)]
    #[kani::stub(<hdwallet::hdk::Path as core::str::FromStr>::from_str, path_parse_recorder)]
    #[kani::stub(hdwallet::hdk::derive, derive_recorder)]
    #[kani::stub(std::backtrace::Backtrace::capture, crate::verif_common::no_backtrace)]
    fn c16_private_key_selection() {
        // inputs: any password of <= 4 ASCII bytes, any account index, hd_path absent or any <= 4 ASCII bytes
        let pw: [u8; 4] = kani::any();
        let pw_len: usize = kani::any();
        kani::assume(pw_len <= 4 && pw.iter().all(|b| *b < 0x80));
        let index: usize = kani::any();
        let has_path: bool = kani::any();
        let pt: [u8; 4] = kani::any();
        let pt_len: usize = kani::any();
        kani::assume(pt_len <= 4 && pt.iter().all(|b| *b < 0x80));
        let seed_out: [u8; 64] = kani::any();
        let (for_index_ok, parse_ok, derive_ok): (bool, bool, bool) = (kani::any(), kani::any(), kani::any());
        let mut key = [0u8; 32];
        key[31] = 1 + (kani::any::<u8>() & 0x7f);
        unsafe {
            SEED_OUT = seed_out;
            FOR_INDEX_OK = for_index_ok;
            PARSE_OK = parse_ok;
            DERIVE_OK = derive_ok;
            DERIVE_KEY = key;
        }
        let options = AccountOptions {
            // Mnemonic has private fields; the all-zero bit pattern is a valid value and its content is never read
            // (seed is a recording stub identified by address)
            mnemonic: unsafe { core::mem::zeroed() },
            password: unsafe { String::from_utf8_unchecked(pw[..pw_len].to_vec()) },
            account_index: index,
            hd_path: if has_path { Some(unsafe { String::from_utf8_unchecked(pt[..pt_len].to_vec()) }) } else { None },
        };
        let res = options.private_key();
        unsafe {
            assert!(SEED_CALLS >= 1 && SEED_SELF == &options.mnemonic as *const Mnemonic as usize, "key selection: the seed is taken from the given mnemonic");
            assert!(SEED_PW_LEN == pw_len, "key selection: the passphrase reaches the seed derivation unchanged");
            let mut i = 0;
            while i < pw_len {
                assert!(SEED_PW[i] == pw[i], "key selection: the passphrase reaches the seed derivation unchanged");
                i += 1;
            }
            if !has_path {
                assert!(PARSE_CALLS == 0 && FOR_INDEX_CALLS >= 1 && FOR_INDEX_ARG == index, "key selection: without --hd-path the default path of exactly --account-index is used");
            } else {
                assert!(FOR_INDEX_CALLS == 0 && PARSE_CALLS >= 1 && PARSE_ARG_LEN == pt_len, "key selection: --hd-path text is parsed unchanged, the account index is ignored");
                let mut i = 0;
                while i < pt_len {
                    assert!(PARSE_ARG[i] == pt[i], "key selection: --hd-path text is parsed unchanged");
                    i += 1;
                }
            }
            let path_ok = if has_path { parse_ok } else { for_index_ok };
            if !path_ok {
                assert!(res.is_err() && DERIVE_CALLS == 0, "key selection: an invalid path / index is an error and nothing is derived");
            } else {
                assert!(DERIVE_CALLS >= 1, "key selection: the key is derived");
                assert!(DERIVE_PATH_TAG == if has_path { TAG_PARSED } else { TAG_FOR_INDEX }, "key selection: the selected path is the one derived");
                assert!(DERIVE_SEED_LEN == 64, "key selection: the whole seed is used");
                let mut i = 0;
                while i < 64 {
                    assert!(DERIVE_SEED[i] == seed_out[i], "key selection: the seed of (mnemonic, passphrase) is the one derived from");
                    i += 1;
                }
                assert!(res.is_ok() == derive_ok, "key selection: the derivation result is returned unchanged");
                if let Ok(k) = &res {
                    assert!(k.secret() == key, "key selection: the derived key is returned unchanged");
                }
            }
        }
        kani::cover!(res.is_ok() && has_path);
        kani::cover!(res.is_ok() && !has_path);
        kani::cover!(res.is_err());
        core::mem::forget(res);
        core::mem::forget(options);
    }
}
