#[cfg(kani)]
mod verif_kani {
    use super::*;
    use ethnum::{serde::permissive, I256, U256};
    use serde_json::Number;

    // The repository's unsigned helper (serialization::uint) is `Value::deserialize` + "refuse negative JSON numbers" +
    // ethnum's permissive visitor.  serde_json's Value -> Value round trip does not terminate under CBMC and cannot be
    // stubbed (dependency trait impl), so the helper itself is covered by the native stand-in nb_tx_json_number_spellings;
    // what is proved here, on the real ethnum code as instantiated by this crate, is the contract of the visitor for every
    // JSON number: a non-negative number is taken at exactly its mathematical value or refused.

    #[kani::proof]
    #[kani::unwind(70)]
    #[kani::stub(alloc::fmt::format, crate::verif_common::no_format)]
    fn c13_visitor_u256_from_u64() {
        let v: u64 = kani::any();
        let res = permissive::deserialize::<U256, _>(Value::Number(Number::from(v)));
        assert!(res.is_ok(), "JSON integer: every integer up to 2^64-1 is accepted");
        assert!(*res.as_ref().unwrap() == U256::new(v as u128), "JSON integer: denotes exactly the integer written");
        kani::cover!(v > u32::MAX as u64);
        core::mem::forget(res);
    }

    #[kani::proof]
    #[kani::unwind(70)]
    #[kani::stub(alloc::fmt::format, crate::verif_common::no_format)]
    fn c13_visitor_u256_from_nonneg_i64() {
        let v: i64 = kani::any();
        kani::assume(v >= 0);
        let res = permissive::deserialize::<U256, _>(Value::Number(Number::from(v)));
        assert!(res.is_ok() && *res.as_ref().unwrap() == U256::new(v as u128), "JSON integer: denotes exactly the integer written");
        kani::cover!(v > 0);
        core::mem::forget(res);
    }

    #[kani::proof]
    #[kani::unwind(70)]
    #[kani::stub(alloc::fmt::format, crate::verif_common::no_format)]
    fn c13_visitor_u256_from_nonneg_f64() {
        let f: f64 = kani::any();
        kani::assume(f.is_finite() && f >= 0.0);
        let res = permissive::deserialize::<U256, _>(Value::Number(Number::from_f64(f).unwrap()));
        // exact: an integral float below 2^53 is the integer it prints as; everything else is refused
        let exact = f < 9007199254740992.0 && (f as u64) as f64 == f;
        match &res {
            Ok(u) => {
                assert!(exact, "JSON float: a fractional or inexact (>= 2^53) float must be refused, not truncated or rounded");
                assert!(*u == U256::new((f as u64) as u128), "JSON float: an integral float denotes exactly that integer");
            }
            Err(_) => assert!(!exact, "JSON float: an exactly integral float below 2^53 was refused"),
        }
        kani::cover!(res.is_ok() && f > 1.0);
        kani::cover!(res.is_err() && f > 0.0 && f < 1.0);
        kani::cover!(res.is_err() && f > 1e300);
        core::mem::forget(res);
    }

    // signed typed-data integers (visitor instantiated at I256): exact for every JSON integer and float
    #[kani::proof]
    #[kani::unwind(70)]
    #[kani::stub(alloc::fmt::format, crate::verif_common::no_format)]
    fn c13_visitor_i256_from_i64() {
        let v: i64 = kani::any();
        let res = permissive::deserialize::<I256, _>(Value::Number(Number::from(v)));
        assert!(res.is_ok(), "signed value: every JSON integer is accepted");
        assert!(*res.as_ref().unwrap() == I256::new(v as i128), "signed value: a JSON integer denotes exactly the integer written");
        kani::cover!(v < 0);
        core::mem::forget(res);
    }

    #[kani::proof]
    #[kani::unwind(70)]
    #[kani::stub(alloc::fmt::format, crate::verif_common::no_format)]
    fn c13_visitor_i256_from_f64() {
        let f: f64 = kani::any();
        kani::assume(f.is_finite());
        let res = permissive::deserialize::<I256, _>(Value::Number(Number::from_f64(f).unwrap()));
        // (the dependency's window is [-2^53, 2^53): the single point -2^53 is accepted; recorded as an observation in DESIGN.md)
        let exact = f >= -9007199254740992.0 && f < 9007199254740992.0 && (f as i64) as f64 == f;
        match &res {
            Ok(i) => {
                assert!(exact, "signed value: a fractional or inexact float must be refused");
                assert!(*i == I256::new((f as i64) as i128), "signed value: an integral float denotes exactly that integer");
            }
            Err(_) => assert!(!exact, "signed value: an exactly integral float was refused"),
        }
        kani::cover!(res.is_ok() && f < -1.0);
        kani::cover!(res.is_err());
        core::mem::forget(res);
    }
}
