#[cfg(kani)]
mod verif_kani {
    use super::*;
    use ethnum::{serde::permissive, I256, U256};
    use serde_json::Number;

    // The repository's unsigned helper (serialization::uint) is `Value::deserialize` + "refuse negative JSON numbers" +
    // ethnum's permissive visitor.  serde_json's Value -> Value round trip does not terminate under CBMC and cannot be
    // stubbed (dependency trait impl), so the helper itself is covered by the native stand-in nb_tx_json_number_spellings;
    // what is proved here, on the real ethnum code as instantiated by this crate, is the contract of the visitor for every
    // JSON number: a non-negative number is taken at exactly its mathematical value or refused.

    #[kani::proof]
    #[kani::unwind(70)]
    #[kani::stub(alloc::fmt::format, crate::verif_common::no_format)]
    fn c13_visitor_u256_from_u64() {
        let v: u64 = kani::any();
        let res = permissive::deserialize::<U256, _>(Value::Number(Number::from(v)));
        assert!(res.is_ok(), "JSON integer: every integer up to 2^64-1 is accepted");
        assert!(*res.as_ref().unwrap() == U256::new(v as u128), "JSON integer: denotes exactly the integer written");
        kani::cover!(v > u32::MAX as u64);
        core::mem::forget(res);
    }

    #[kani::proof]
    #[kani::unwind(70)]
    #[kani::stub(alloc::fmt::format, crate::verif_common::no_format)]
    fn c13_visitor_u256_from_nonneg_i64() {
        let v: i64 = kani::any();
        kani::assume(v >= 0);
        let res = permissive::deserialize::<U256, _>(Value::Number(Number::from(v)));
        assert!(res.is_ok() && *res.as_ref().unwrap() == U256::new(v as u128), "JSON integer: denotes exactly the integer written");
        kani::cover!(v > 0);
        core::mem::forget(res);
    }

    #[kani::proof]
    #[kani::unwind(70)]
    #[kani::stub(alloc::fmt::format, crate::verif_common::no_format)]
    fn c13_visitor_u256_from_nonneg_f64() {
        let f: f64 = kani::any();
        kani::assume(f.is_finite() && f >= 0.0);
        let res = permissive::deserialize::<U256, _>(Value::Number(Number::from_f64(f).unwrap()));
        // exact: an integral float below 2^53 is the integer it prints as; everything else is refused
        let exact = f < 9007199254740992.0 && (f as u64) as f64 == f;
        match &res {
            Ok(u) => {
                assert!(exact, "JSON float: a fractional or inexact (>= 2^53) float must be refused, not truncated or rounded");
                assert!(*u == U256::new((f as u64) as u128), "JSON float: an integral float denotes exactly that integer");
            }
            Err(_) => assert!(!exact, "JSON float: an exactly integral float below 2^53 was refused"),
        }
        kani::cover!(res.is_ok() && f > 1.0);
        kani::cover!(res.is_err() && f > 0.0 && f < 1.0);
        kani::cover!(res.is_err() && f > 1e300);
        core::mem::forget(res);
    }

    // signed typed-data integers (visitor instantiated at I256): exact for every JSON integer and float
    #[kani::proof]
    #[kani::unwind(70)]
    #[kani::stub(alloc::fmt::format, crate::verif_common::no_format)]
    fn c13_visitor_i256_from_i64() {
        let v: i64 = kani::any();
        let res = permissive::deserialize::<I256, _>(Value::Number(Number::from(v)));
        assert!(res.is_ok(), "signed value: every JSON integer is accepted");
        assert!(*res.as_ref().unwrap() == I256::new(v as i128), "signed value: a JSON integer denotes exactly the integer written");
        kani::cover!(v < 0);
        core::mem::forget(res);
    }

    #[kani::proof]
    #[kani::unwind(70)]
    #[kani::stub(alloc::fmt::format, crate::verif_common::no_format)]
    fn c13_visitor_i256_from_f64() {
        let f: f64 = kani::any();
        kani::assume(f.is_finite());
        let res = permissive::deserialize::<I256, _>(Value::Number(Number::from_f64(f).unwrap()));
        // (the dependency's window is [-2^53, 2^53): the single point -2^53 is accepted; recorded as an observation in DESIGN.md)
        let exact = f >= -9007199254740992.0 && f < 9007199254740992.0 && (f as i64) as f64 == f;
        match &res {
            Ok(i) => {
                assert!(exact, "signed value: a fractional or inexact float must be refused");
                assert!(*i == I256::new((f as i64) as i128), "signed value: an integral float denotes exactly that integer");
            }
            Err(_) => assert!(!exact, "signed value: an exactly integral float was refused"),
        }
        kani::cover!(res.is_ok() && f < -1.0);
        kani::cover!(res.is_err());
        core::mem::forget(res);
    }
}

#[cfg(kani)]
mod verif_kani_bytes {
    use super::*;
    use serde::de::value::StrDeserializer;

    /// error type of the deserializer used by the harnesses: carries no message (texts are irrelevant to the contracts)
    #[derive(Debug)]
    pub struct E;
    impl core::fmt::Display for E {
        fn fmt(&self, _f: &mut core::fmt::Formatter<'_>) -> core::fmt::Result {
            Ok(())
        }
    }
    impl std::error::Error for E {}
    impl serde::de::Error for E {
        fn custom<T: core::fmt::Display>(_msg: T) -> Self {
            E
        }
    }

    fn hexval(c: u8) -> Option<u8> {
        match c {
            b'0'..=b'9' => Some(c - b'0'),
            b'a'..=b'f' => Some(c - b'a' + 10),
            b'A'..=b'F' => Some(c - b'A' + 10),
            _ => None,
        }
    }
    /// reference: the text denotes a byte string iff it is 0x followed by an even number of hex digits of either case
    fn reference<const L: usize>(t: &[u8; L]) -> Option<([u8; 40], usize)> {
        if L < 2 || t[0] != b'0' || t[1] != b'x' || (L - 2) % 2 != 0 {
            return None;
        }
        let mut out = [0u8; 40];
        let mut i = 0;
        while 2 + 2 * i + 1 < L {
            match (hexval(t[2 + 2 * i]), hexval(t[3 + 2 * i])) {
                (Some(h), Some(l)) => out[i] = 16 * h + l,
                _ => return None,
            }
            i += 1;
        }
        Some((out, (L - 2) / 2))
    }
    fn any_ascii<const L: usize>() -> [u8; L] {
        let t: [u8; L] = kani::any();
        let mut i = 0;
        while i < L {
            kani::assume(t[i] < 0x80);
            i += 1;
        }
        t
    }

    /// serialization::bytes::deserialize on every ASCII text of L characters: accepted iff 0x + an even number of hex
    /// digits, and then the bytes are the digit pairs; a second prefix, a missing prefix, an odd digit or a foreign
    /// character is an error
    fn bytes_text_at<const L: usize>() {
        let t = any_ascii::<L>();
        let s = unsafe { core::str::from_utf8_unchecked(&t) };
        let res = bytes::deserialize(StrDeserializer::<E>::new(s));
        match (reference(&t), &res) {
            (Some((want, n)), Ok(got)) => {
                assert!(got.len() == n, "byte field: one byte per digit pair");
                let mut i = 0;
                while i < n {
                    assert!(got[i] == want[i], "byte field: the bytes are the digit pairs written");
                    i += 1;
                }
            }
            (None, Err(_)) => {}
            (Some(_), Err(_)) => assert!(false, "byte field: 0x-prefixed even-length hex was refused"),
            (None, Ok(_)) => assert!(false, "byte field: text that is not 0x + even-length hex was accepted"),
        }
        kani::cover!(res.is_ok() == (L >= 2 && L % 2 == 0));
        kani::cover!(res.is_err());
        core::mem::forget(res);
    }
    /// serialization::bytearray::deserialize::<_, 32> (storage keys): accepted iff 0x + exactly 64 hex digits
    fn bytearray32_text_at<const L: usize>() {
        let t = any_ascii::<L>();
        let s = unsafe { core::str::from_utf8_unchecked(&t) };
        let res = bytearray::deserialize::<_, 32>(StrDeserializer::<E>::new(s));
        match (reference(&t), &res) {
            (Some((want, 32)), Ok(got)) => {
                let mut i = 0;
                while i < 32 {
                    assert!(got[i] == want[i], "storage key: the 32 bytes are the digit pairs written");
                    i += 1;
                }
            }
            (Some((_, 32)), Err(_)) => assert!(false, "storage key: 0x + 64 hex digits was refused"),
            (_, Ok(_)) => assert!(false, "storage key: text that is not 0x + exactly 64 hex digits was accepted (padded or truncated)"),
            (_, Err(_)) => {}
        }
        kani::cover!(res.is_ok() == (L == 66));
        core::mem::forget(res);
    }
    macro_rules! texts {
        ($f:ident: $($name:ident => $l:expr, $u:expr;)*) => {$(
            #[kani::proof]
            #[kani::unwind($u)]
            fn $name() { $f::<$l>() }
        )*};
    }
    texts! { bytes_text_at:
        c13_bytes_text_len0 => 0, 8;
        c13_bytes_text_len1 => 1, 8;
        c13_bytes_text_len2 => 2, 8;
        c13_bytes_text_len3 => 3, 8;
        c13_bytes_text_len4 => 4, 8;
        c13_bytes_text_len5 => 5, 9;
        c13_bytes_text_len6 => 6, 10;
        c13_bytes_text_len8 => 8, 12;
        c13_bytes_text_len12 => 12, 16;
    }
    texts! { bytearray32_text_at:
        c13_key_text_len2 => 2, 36;
        c13_key_text_len4 => 4, 36;
        c13_key_text_len64 => 64, 68;
        c13_key_text_len65 => 65, 69;
        c13_key_text_len66 => 66, 70;
        c13_key_text_len68 => 68, 72;
    }
}
