#[cfg(kani)]
mod verif_kani {
    use super::*;

    const LIMIT: u32 = 0x8000_0000;

    fn comp_eq(a: &Component, hardened: bool, value: u32) -> bool {
        match a {
            Component::Hardened(v) => hardened && *v == value,
            Component::Normal(v) => !hardened && *v == value,
        }
    }

    /// decimal digits of v, most significant first; returns (buffer, count)
    fn decimal(v: u32) -> ([u8; 10], usize) {
        let mut tmp = [0u8; 10];
        let mut n = 0;
        let mut x = v;
        loop {
            tmp[n] = b'0' + (x % 10) as u8;
            n += 1;
            x /= 10;
            if x == 0 {
                break;
            }
        }
        let mut out = [0u8; 10];
        let mut i = 0;
        while i < n {
            out[i] = tmp[n - 1 - i];
            i += 1;
        }
        (out, n)
    }

    // ---- callee contract of std's decimal Display for u32: writes the canonical decimal digits of the value,
    // nothing else.  Stated without division ("the unique canonical digit string whose value is v", chosen
    // angelically and constrained by assume) so that CBMC only sees multiplications by constants.
    // Cross-checked against the real std implementation per digit count by xc_u32_display_d*.
    fn digits_value(d: &[u8], n: usize) -> Option<u64> {
        let mut val: u64 = 0;
        let mut i = 0;
        while i < d.len() {
            if i < n {
                if d[i] < b'0' || d[i] > b'9' {
                    return None;
                }
                val = val * 10 + (d[i] - b'0') as u64;
            }
            i += 1;
        }
        Some(val)
    }
    fn u32_display_contract(v: &u32, f: &mut core::fmt::Formatter<'_>) -> core::fmt::Result {
        let d: [u8; 10] = kani::any();
        let n: usize = kani::any();
        kani::assume(n >= 1 && n <= 10);
        kani::assume(n == 1 || d[0] != b'0');
        kani::assume(digits_value(&d, n) == Some(*v as u64));
        let mut i = 0;
        while i < n {
            let one = [d[i]];
            f.write_str(unsafe { core::str::from_utf8_unchecked(&one) })?;
            i += 1;
        }
        Ok(())
    }

    // ---- Component Display is the canonical text: all 2^32 values x {hardened, normal}
    #[kani::proof]
    #[kani::unwind(13)]
    #[kani::stub(<u32 as core::fmt::Display>::fmt, u32_display_contract)]
    fn c14_component_display() {
        let value: u32 = kani::any();
        let hardened: bool = kani::any();
        let c = if hardened { Component::Hardened(value) } else { Component::Normal(value) };
        let text = c.to_string();
        let t = text.as_bytes();
        assert!(t.len() >= 1 + hardened as usize && t.len() <= 10 + hardened as usize, "component display: 1..10 digits and optional apostrophe");
        let n = t.len() - hardened as usize;
        assert!(digits_value(&t[..n], n) == Some(value as u64), "component display: the decimal digits of the value");
        assert!(n == 1 || t[0] != b'0', "component display: no leading zero");
        if hardened {
            assert!(t[n] == b'\'', "component display: trailing apostrophe iff hardened");
        }
        kani::cover!(value > 1_000_000_000 && hardened);
        kani::cover!(value == 0);
    }

    /// real std Display for u32 against the contract, for all values in [lo, hi] (one digit count)
    fn xc_u32_display_at(lo: u32, hi: u32) {
        let v: u32 = kani::any();
        kani::assume(v >= lo && v <= hi);
        let text = format!("{}", v);
        let t = text.as_bytes();
        assert!(t.len() >= 1 && t.len() <= 10, "std u32 Display: 1..10 characters");
        assert!(digits_value(t, t.len()) == Some(v as u64), "std u32 Display: decimal digits of the value");
        assert!(t.len() == 1 || t[0] != b'0', "std u32 Display: canonical (no leading zero)");
        kani::cover!(true);
    }
    macro_rules! xc_display {
        ($($name:ident => $f:ident($lo:expr, $hi:expr), $u:expr;)*) => {$(
            #[kani::proof]
            #[kani::unwind(13)]
            fn $name() { $f($lo, $hi) }
        )*};
    }
    xc_display! {
        xc_u32_display_d1 => xc_u32_display_at(0, 9), 4;
        xc_u32_display_d2 => xc_u32_display_at(10, 99), 5;
        xc_u32_display_d3 => xc_u32_display_at(100, 999), 6;
        xc_u32_display_d4 => xc_u32_display_at(1000, 9999), 7;
        xc_u32_display_d5 => xc_u32_display_at(10000, 99999), 8;
        xc_u32_display_d6 => xc_u32_display_at(100000, 999999), 9;
        xc_u32_display_d7 => xc_u32_display_at(1000000, 9999999), 10;
        xc_u32_display_d8 => xc_u32_display_at(10000000, 99999999), 11;
        xc_u32_display_d9 => xc_u32_display_at(100000000, 999999999), 12;
        xc_u32_display_d10 => xc_u32_display_at(1000000000, u32::MAX), 13;
    }

    // ---- Component::from_str on arbitrary ASCII text of length L
    fn component_text_at<const L: usize>() {
        let t: [u8; L] = kani::any();
        kani::assume(t.iter().all(|b| *b < 0x80));
        let s = unsafe { core::str::from_utf8_unchecked(&t) };
        let res = Component::from_str(s);
        // spec: [+]digits['] with value < 2^31 (Rust's integer parser admits a leading '+')
        let hardened = L > 0 && t[L - 1] == b'\'';
        let end = if hardened { L - 1 } else { L };
        let start = if end > 0 && t[0] == b'+' { 1 } else { 0 };
        let mut ok = end > start;
        let mut v: u64 = 0;
        let mut i = start;
        while i < end {
            if t[i] >= b'0' && t[i] <= b'9' {
                v = v * 10 + (t[i] - b'0') as u64;
                if v > u32::MAX as u64 {
                    ok = false;
                    v = 0;
                }
            } else {
                ok = false;
            }
            i += 1;
        }
        let ok = ok && v < LIMIT as u64;
        match &res {
            Ok(c) => {
                assert!(ok, "component: accepted text is not a decimal index below 2^31 (empty, negative, fractional, non-numeric or too large)");
                assert!(comp_eq(c, hardened, v as u32), "component: parsed value / hardened marker");
            }
            Err(_) => assert!(!ok, "component: a decimal index below 2^31 was rejected"),
        }
        kani::cover!(L == 0 || res.is_ok());
        kani::cover!(res.is_err());
        core::mem::forget(res);
    }
    macro_rules! component_text {
        ($($name:ident => $l:expr, $u:expr;)*) => {$(
            #[kani::proof]
            #[kani::unwind($u)]
            #[kani::stub(std::backtrace::Backtrace::capture, crate::verif_common::no_backtrace)]
            #[kani::stub(alloc::fmt::format, crate::verif_common::no_format)]
            fn $name() { component_text_at::<$l>() }
        )*};
    }
    component_text! {
        c14_component_text_len0 => 0, 3;
        c14_component_text_len1 => 1, 4;
        c14_component_text_len2 => 2, 5;
        c14_component_text_len3 => 3, 6;
        c14_component_text_len4 => 4, 7;
        c14_component_text_len5 => 5, 8;
        c14_component_text_len6 => 6, 9;
        c14_component_text_len7 => 7, 10;
        c14_component_text_len8 => 8, 11;
        c14_component_text_len9 => 9, 12;
        c14_component_text_len10 => 10, 13;
        c14_component_text_len11 => 11, 14;
        c14_component_text_len12 => 12, 15;
    }

    // ---- Path::from_str on concrete shapes with the REAL component parser (bounded: examples)
    fn path_example(text: &str, expect: Option<&[(bool, u32)]>) {
        let res = Path::from_str(text);
        match expect {
            None => assert!(res.is_err(), "path: malformed path text is rejected"),
            Some(cs) => {
                assert!(res.is_ok(), "path: well-formed path text is accepted");
                let p = res.as_ref().unwrap();
                assert!(p.components.len() == cs.len(), "path: one component per segment");
                let mut k = 0;
                while k < cs.len() {
                    assert!(comp_eq(&p.components[k], cs[k].0, cs[k].1), "path: components in order");
                    k += 1;
                }
            }
        }
        kani::cover!(true);
        core::mem::forget(res);
    }
    macro_rules! path_examples {
        ($($name:ident => $t:expr, $e:expr;)*) => {$(
            #[kani::proof]
            #[kani::unwind(27)]
            #[kani::stub(core::slice::memchr::memchr, crate::verif_common::naive_memchr)]
            #[kani::stub(std::backtrace::Backtrace::capture, crate::verif_common::no_backtrace)]
            #[kani::stub(alloc::fmt::format, crate::verif_common::no_format)]
            fn $name() { path_example($t, $e) }
        )*};
    }
    path_examples! {
        c14_path_ex_empty => "", None;
        c14_path_ex_m => "m", None;
        c14_path_ex_no_root => "0/1", None;
        c14_path_ex_slash_root => "/m/0", None;
        c14_path_ex_upper_root => "M/0", None;
        c14_path_ex_empty_mid => "m/1//3", None;
        c14_path_ex_double_root => "m/m/1", None;
        c14_path_ex_negative => "m/-1", None;
        c14_path_ex_fraction => "m/1.5", None;
        c14_path_ex_limit => "m/2147483648", None;
        c14_path_ex_one => "m/7", Some(&[(false, 7)]);
        c14_path_ex_bip44 => "m/44'/60'/0'/0/2147483647", Some(&[(true, 44), (true, 60), (true, 0), (false, 0), (false, 2147483647)]);
    }

    // ---- Path Display: "m" then "/component" each
    #[kani::proof]
    #[kani::unwind(14)]
    fn c14_path_display() {
        let a: u32 = kani::any();
        let b: u32 = kani::any();
        let ha: bool = kani::any();
        kani::assume(a < 10 && b < 10);
        let p = Path { components: vec![if ha { Component::Hardened(a) } else { Component::Normal(a) }, Component::Normal(b)] };
        let text = p.to_string();
        let t = text.as_bytes();
        let expect_len = 1 + 2 + ha as usize + 2;
        assert!(t.len() == expect_len, "path display: m/a['']/b");
        assert!(t[0] == b'm' && t[1] == b'/' && t[2] == b'0' + a as u8, "path display: root and first component");
        let o = 3 + ha as usize;
        if ha {
            assert!(t[3] == b'\'', "path display: hardened marker");
        }
        assert!(t[o] == b'/' && t[o + 1] == b'0' + b as u8, "path display: second component");
        kani::cover!(ha);
    }
}
