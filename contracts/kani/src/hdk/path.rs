#[cfg(kani)]
mod verif_kani {
    use super::*;

    const LIMIT: u32 = 0x8000_0000;

    fn comp_eq(a: &Component, hardened: bool, value: u32) -> bool {
        match a {
            Component::Hardened(v) => hardened && *v == value,
            Component::Normal(v) => !hardened && *v == value,
        }
    }

    /// decimal digits of v, most significant first; returns (buffer, count)
    fn decimal(v: u32) -> ([u8; 10], usize) {
        let mut tmp = [0u8; 10];
        let mut n = 0;
        let mut x = v;
        loop {
            tmp[n] = b'0' + (x % 10) as u8;
            n += 1;
            x /= 10;
            if x == 0 {
                break;
            }
        }
        let mut out = [0u8; 10];
        let mut i = 0;
        while i < n {
            out[i] = tmp[n - 1 - i];
            i += 1;
        }
        (out, n)
    }

    // ---- Component: print -> parse over all 2^32 values x {hardened, normal}
    #[kani::proof]
    #[kani::unwind(13)]
    #[kani::stub(std::backtrace::Backtrace::capture, crate::verif_common::no_backtrace)]
    #[kani::stub(alloc::fmt::format, crate::verif_common::no_format)]
    fn c14_component_canonical_text() {
        let value: u32 = kani::any();
        let hardened: bool = kani::any();
        // canonical text: decimal digits, optional apostrophe
        let (d, n) = decimal(value);
        let mut buf = [0u8; 11];
        let mut i = 0;
        while i < n {
            buf[i] = d[i];
            i += 1;
        }
        let mut l = n;
        if hardened {
            buf[l] = b'\'';
            l += 1;
        }
        let s = unsafe { core::str::from_utf8_unchecked(&buf[..l]) };
        let res = Component::from_str(s);
        if value < LIMIT {
            assert!(res.is_ok(), "component: decimal index below 2^31 is accepted");
            assert!(comp_eq(res.as_ref().unwrap(), hardened, value), "component: value and hardened marker are the ones written");
        } else {
            assert!(res.is_err(), "component: index of 2^31 or more is rejected");
        }
        kani::cover!(value == LIMIT - 1);
        kani::cover!(value == u32::MAX);
        core::mem::forget(res);
    }

    // ---- Component Display is the canonical text
    #[kani::proof]
    #[kani::unwind(13)]
    fn c14_component_display() {
        let value: u32 = kani::any();
        let hardened: bool = kani::any();
        let c = if hardened { Component::Hardened(value) } else { Component::Normal(value) };
        let text = c.to_string();
        let (d, n) = decimal(value);
        let t = text.as_bytes();
        assert!(t.len() == n + hardened as usize, "component display: digits and optional apostrophe");
        let mut i = 0;
        while i < n {
            assert!(t[i] == d[i], "component display: decimal digits");
            i += 1;
        }
        if hardened {
            assert!(t[n] == b'\'', "component display: trailing apostrophe");
        }
        kani::cover!(value > 1_000_000_000);
    }

    // ---- Component::from_str on arbitrary ASCII text of length L
    fn component_text_at<const L: usize>() {
        let t: [u8; L] = kani::any();
        kani::assume(t.iter().all(|b| *b < 0x80));
        let s = unsafe { core::str::from_utf8_unchecked(&t) };
        let res = Component::from_str(s);
        // spec: [+]digits['] with value < 2^31 (Rust's integer parser admits a leading '+')
        let hardened = L > 0 && t[L - 1] == b'\'';
        let end = if hardened { L - 1 } else { L };
        let start = if end > 0 && t[0] == b'+' { 1 } else { 0 };
        let mut ok = end > start;
        let mut v: u64 = 0;
        let mut i = start;
        while i < end {
            if t[i] >= b'0' && t[i] <= b'9' {
                v = v * 10 + (t[i] - b'0') as u64;
                if v > u32::MAX as u64 {
                    ok = false;
                    v = 0;
                }
            } else {
                ok = false;
            }
            i += 1;
        }
        let ok = ok && v < LIMIT as u64;
        match &res {
            Ok(c) => {
                assert!(ok, "component: accepted text is not a decimal index below 2^31 (empty, negative, fractional, non-numeric or too large)");
                assert!(comp_eq(c, hardened, v as u32), "component: parsed value / hardened marker");
            }
            Err(_) => assert!(!ok, "component: a decimal index below 2^31 was rejected"),
        }
        kani::cover!(res.is_ok());
        kani::cover!(res.is_err());
        core::mem::forget(res);
    }
    macro_rules! component_text {
        ($($name:ident => $l:expr, $u:expr;)*) => {$(
            #[kani::proof]
            #[kani::unwind($u)]
            #[kani::stub(std::backtrace::Backtrace::capture, crate::verif_common::no_backtrace)]
            #[kani::stub(alloc::fmt::format, crate::verif_common::no_format)]
            fn $name() { component_text_at::<$l>() }
        )*};
    }
    component_text! {
        c14_component_text_len0 => 0, 3;
        c14_component_text_len1 => 1, 4;
        c14_component_text_len2 => 2, 5;
        c14_component_text_len3 => 3, 6;
        c14_component_text_len10 => 10, 13;
        c14_component_text_len11 => 11, 14;
        c14_component_text_len12 => 12, 15;
    }

    // ---- Path::for_index over all usize
    #[kani::proof]
    #[kani::unwind(24)]
    #[kani::stub(std::backtrace::Backtrace::capture, crate::verif_common::no_backtrace)]
    fn c14_for_index_total() {
        let i: usize = kani::any();
        let res = Path::for_index(i);
        if i < LIMIT as usize {
            assert!(res.is_ok(), "for_index: every index below 2^31 has a default path");
            let p = res.as_ref().unwrap();
            assert!(p.components.len() == 5, "for_index: m/44'/60'/0'/0/i has five components");
            assert!(comp_eq(&p.components[0], true, 44), "for_index: 44'");
            assert!(comp_eq(&p.components[1], true, 60), "for_index: 60'");
            assert!(comp_eq(&p.components[2], true, 0), "for_index: 0'");
            assert!(comp_eq(&p.components[3], false, 0), "for_index: 0");
            assert!(comp_eq(&p.components[4], false, i as u32), "for_index: i");
        } else {
            assert!(res.is_err(), "for_index: an index of 2^31 or more is an error, not a panic or another path");
        }
        kani::cover!(i == (LIMIT - 1) as usize);
        kani::cover!(i > u32::MAX as usize);
        core::mem::forget(res);
    }

    // ---- Path::from_str / Display with Component::from_str under its contract (stub)
    static mut COMP_CALLS: usize = 0;
    static mut COMP_ARG_LEN: [usize; 4] = [0; 4];
    static mut COMP_ARG_FIRST: [u8; 4] = [0; 4];
    static mut COMP_RES: [(bool, bool, u32); 4] = [(false, false, 0); 4];
    fn component_contract(s: &str) -> Result<Component> {
        let ok: bool = kani::any();
        let hardened: bool = kani::any();
        let value: u32 = kani::any();
        kani::assume(value < LIMIT);
        unsafe {
            let k = COMP_CALLS;
            if k < 4 {
                COMP_ARG_LEN[k] = s.len();
                COMP_ARG_FIRST[k] = if s.is_empty() { 0 } else { s.as_bytes()[0] };
                COMP_RES[k] = (ok && !s.is_empty(), hardened, value);
            }
            COMP_CALLS += 1;
        }
        // contract: the empty string is never a component
        if ok && !s.is_empty() {
            Ok(if hardened { Component::Hardened(value) } else { Component::Normal(value) })
        } else {
            Err(anyhow::Error::msg("component"))
        }
    }

    fn path_text_at<const L: usize>() {
        let t: [u8; L] = kani::any();
        kani::assume(t.iter().all(|b| *b < 0x80));
        let s = unsafe { core::str::from_utf8_unchecked(&t) };
        let res = Path::from_str(s);
        let calls = unsafe { COMP_CALLS };
        if L < 2 || t[0] != b'm' || t[1] != b'/' {
            assert!(res.is_err(), "path: missing root m/ is rejected");
            assert!(calls == 0, "path: nothing parsed without the root");
        } else {
            // components are the maximal '/'-free runs after "m/"
            let mut n = 1;
            let mut i = 2;
            while i < L {
                if t[i] == b'/' {
                    n += 1;
                }
                i += 1;
            }
            match &res {
                Ok(p) => {
                    assert!(calls == n, "path: every '/'-separated component is parsed exactly once");
                    assert!(p.components.len() == n, "path: one component per segment");
                    let mut k = 0;
                    while k < n && k < 4 {
                        let (ok, h, v) = unsafe { COMP_RES[k] };
                        assert!(ok, "path: a rejected component rejects the path");
                        assert!(comp_eq(&p.components[k], h, v), "path: components in order");
                        k += 1;
                    }
                }
                Err(_) => {
                    let mut any_bad = false;
                    let mut k = 0;
                    while k < calls && k < 4 {
                        if !unsafe { COMP_RES[k] }.0 {
                            any_bad = true;
                        }
                        k += 1;
                    }
                    assert!(any_bad, "path: rejected although every component was accepted");
                }
            }
            // an empty segment reaches the component parser as the empty string (which its contract rejects)
            let mut k = 0;
            let mut seg_start = 2;
            let mut i = 2;
            while i <= L {
                if i == L || t[i] == b'/' {
                    if k < calls && k < 4 {
                        assert!(unsafe { COMP_ARG_LEN[k] } == i - seg_start, "path: segment text handed to the component parser");
                    }
                    k += 1;
                    seg_start = i + 1;
                }
                i += 1;
            }
        }
        kani::cover!(res.is_ok());
        kani::cover!(res.is_err());
        core::mem::forget(res);
    }
    macro_rules! path_text {
        ($($name:ident => $l:expr, $u:expr;)*) => {$(
            #[kani::proof]
            #[kani::unwind($u)]
            #[kani::stub(Component::from_str, component_contract)]
            #[kani::stub(std::backtrace::Backtrace::capture, crate::verif_common::no_backtrace)]
            #[kani::stub(alloc::fmt::format, crate::verif_common::no_format)]
            fn $name() { path_text_at::<$l>() }
        )*};
    }
    path_text! {
        c14_path_text_len0 => 0, 4;
        c14_path_text_len1 => 1, 5;
        c14_path_text_len2 => 2, 6;
        c14_path_text_len3 => 3, 7;
        c14_path_text_len5 => 5, 9;
    }

    // ---- Path Display: "m" then "/component" each
    #[kani::proof]
    #[kani::unwind(14)]
    fn c14_path_display() {
        let a: u32 = kani::any();
        let b: u32 = kani::any();
        let ha: bool = kani::any();
        kani::assume(a < 10 && b < 10);
        let p = Path { components: vec![if ha { Component::Hardened(a) } else { Component::Normal(a) }, Component::Normal(b)] };
        let text = p.to_string();
        let t = text.as_bytes();
        let expect_len = 1 + 2 + ha as usize + 2;
        assert!(t.len() == expect_len, "path display: m/a['']/b");
        assert!(t[0] == b'm' && t[1] == b'/' && t[2] == b'0' + a as u8, "path display: root and first component");
        let o = 3 + ha as usize;
        if ha {
            assert!(t[3] == b'\'', "path display: hardened marker");
        }
        assert!(t[o] == b'/' && t[o + 1] == b'0' + b as u8, "path display: second component");
        kani::cover!(ha);
    }
}
