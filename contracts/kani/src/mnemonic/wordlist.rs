#[cfg(kani)]
pub(crate) mod verif_kani {
    use super::*;

    // ---- callee contracts of the word list (the embedded list itself is a ground fact checked natively:
    // 2048 strictly sorted lower-case words; see contracts/native/src/mnemonic/wordlist.rs)
    pub static mut SEARCH_CALLS: usize = 0;
    pub static mut SEARCH_FOUND: [bool; 40] = [false; 40];
    pub static mut SEARCH_INDEX: [usize; 40] = [0; 40];
    pub static mut WORD_CALLS: usize = 0;
    pub static mut WORD_INDEX: [usize; 40] = [0; 40];

    /// stub for wordlist::for_language: a list object whose content is never read (search/word are stubbed)
    pub fn any_wordlist(_language: Language) -> &'static Wordlist<'static> {
        Box::leak(Box::new(Wordlist(Vec::new())))
    }
    /// contract of Wordlist::search: the k-th lookup returns the k-th symbolic verdict: Some(index < 2048) or None
    pub fn search_contract<'a>(_wl: &Wordlist<'a>, _word: impl AsRef<str>) -> Option<usize>
    where
        'a: 'a,
    {
        unsafe {
            let k = SEARCH_CALLS;
            SEARCH_CALLS += 1;
            if k < 40 && SEARCH_FOUND[k] {
                Some(SEARCH_INDEX[k])
            } else {
                None
            }
        }
    }
    /// contract of Wordlist::word: requires index < WORD_COUNT; returns a one-letter word; records the index
    pub fn word_contract<'a>(_wl: &'a Wordlist<'a>, index: usize) -> &'a str
    where
        'a: 'a,
    {
        assert!(index < WORD_COUNT, "Wordlist::word precondition: index < 2048");
        unsafe {
            let k = WORD_CALLS;
            WORD_CALLS += 1;
            if k < 40 {
                WORD_INDEX[k] = index;
            }
        }
        "a"
    }
}
