"""Registry of verification units: which Verus units and Kani harnesses decide which property.

KANI entries: name (harness fn name, unique), file (repo-relative source file the harness module is appended
to), fn (function under contract), props {property: tier}, complete (True: loop-free or inherently bounded
over the full symbolic domain => proof; False: bounded stand-in), bound (text), obligation (the contract in
words), replay ('shim' = generic native replay through contracts/replay/kani_shim.rs with stubs off,
'none' = harness depends on stub-recorded state; violation is reported no-failing-input-found), bin (harness
lives in the binary crate), timeout (s).
"""

KANI = []
VERUS = []


def K(name, file, fn, props, obligation, complete=True, bound='', replay='shim', bin=False, timeout=900):
    KANI.append(dict(name=name, file=file, fn=fn, props=props, obligation=obligation, complete=complete,
                     bound=bound, replay=replay, bin=bin, timeout=timeout))


Q, T = 'quick', 'thorough'

TRUSTED_BASE = [
    'rustc (repo stable toolchain for native replay; Kani nightly-2026-08-21; Verus 1.98.1)',
    'Kani 0.68.0 + CBMC 6.11.0 + CaDiCaL; Verus 0.2026.09.13 + Z3; vstd specifications of Vec/slice/integer casts',
    'ethnum 1.5.0 built for Kani with the one-function patch vendor/ethnum-kani.diff (error.rs::tfie, unreachable from hdwallet)',
    'tools/extract.py (mechanical extraction + listed rewrite rules) for the Verus leg',
]

# ---------------------------------------------------------------------------
# C07 — canonical RLP
VERUS.append(dict(
    name='rlp', template='contracts/verus/rlp.rs', props={'C07': Q, 'C06': Q, 'C17': Q}, rlimit=30,
    pairs={'rlp_len': r'c07_len_complete$', 'rlp_bytes': r'c07_bytes_len\d+$', 'uint': r'c07_uint_complete$', 'list': r'c07_list_\w+$'},
))
RLP = 'src/transaction/rlp.rs'
K('c07_len_complete', RLP, 'rlp::len', {'C07': Q, 'C17': Q},
  'len(n, off) == hdr(n, off) (Yellow Paper length header, minimal big-endian length) for all n: usize, off in {0x80,0xc0}; no panic')
K('c07_uint_complete', RLP, 'rlp::uint', {'C07': Q, 'C17': Q},
  'uint(v) == enc_str(be_min(v)) for all v < 2^256: no leading zero byte, 0 -> 0x80, single byte < 0x80 is itself')
for _l in (0, 1, 2, 55, 56):
    K(f'c07_bytes_len{_l}', RLP, 'rlp::bytes', {'C07': Q},
      f'bytes(b) == enc_str(b) for all byte strings of length {_l} (pairing for the unbounded Verus obligation)', complete=False,
      bound=f'|b| == {_l}, content symbolic')
for _n, _b in (('empty', '0 items'), ('small', '3 items of 1,3,2 bytes'), ('long', '3 items of 20 bytes (long header)')):
    K(f'c07_list_{_n}', RLP, 'rlp::list', {'C07': Q},
      'list(xs) == hdr(sum |x_i|, 0xc0) ++ concat(xs) (pairing for the unbounded Verus obligation)', complete=False, bound=_b)
K('c07_iter_small', RLP, 'rlp::iter', {'C07': Q}, 'iter(xs) == list(xs as slices)', complete=False, bound='2 items of 1 and 2 bytes')
K('xc_usize_lz_bytes', RLP, 'usize::{leading_zeros,to_be_bytes}', {'C07': Q},
  'cross-check of the interface contracts assumed by the Verus unit: usize::leading_zeros == 64 - bitlen, to_be_bytes == be_fix(n, 8), for all usize')
K('xc_u256_lz_bytes', RLP, 'ethnum::U256::{leading_zeros,to_be_bytes}', {'C07': Q},
  'cross-check of the interface contracts assumed by the Verus unit: U256::leading_zeros == 256 - bitlen, to_be_bytes == be_fix(n, 32), for all U256')

# ---------------------------------------------------------------------------
NOT_APPLICABLE = {
    'C02': 'the property is the definition of PBKDF2-HMAC-SHA512 and NFKD in the pbkdf2/hmac/sha2/unicode-normalization dependencies; no contract within reach of Verus (cannot link the crates) or Kani (2048x2 SHA-512 compressions on symbolic input; trait-method call sites cannot be stubbed) can express or decide it',
    'C03': 'derive_slice interleaves its glue with HMAC-SHA512, SEC1 compression and secp256k1 scalar addition from hmac/k256 inside one loop body; those trait-method calls cannot be cut out by Kani stubs nor seen by Verus, and symbolic HMAC/EC arithmetic has no tractable encoding or independent oracle',
    'C05': 'try_sign is a single call into k256 RFC 6979 signing; validity, recoverability, low-s and RFC 6979 equality are theorems about secp256k1/HMAC-DRBG in the dependency that neither installed verifier can express',
}
_PENDING = 'check not built yet in this session (see DESIGN.md for the planned contracts)'
for _p in ('C01', 'C04', 'C06', 'C08', 'C09', 'C10', 'C11', 'C12', 'C13', 'C14', 'C15', 'C16', 'C17', 'C18', 'C19', 'C20'):
    NOT_APPLICABLE.setdefault(_p, _PENDING)

PROPS = {
    'C07': dict(level='proof',
                technique='Verus proof of extracted rlp::{len,bytes,uint,list} against the Yellow-Paper spec + Kani/CBMC pairings on the real functions',
                claim='rlp::{len,bytes,uint,list} produce exactly the Yellow-Paper encoding for inputs of every length and value (Verus, unbounded); the canonical-form clauses (minimal length prefix, no wrapped single byte < 0x80, no leading zero in integers, 0 = empty string) are part of that spec; len and uint are additionally proved on the real code for all 2^64 x 2 resp. 2^256 inputs by Kani. rlp::iter and AccessList::rlp_encode are bounded stand-ins.',
                note='Assumed: ethnum U256 / usize leading_zeros and to_be_bytes interface contracts (each cross-checked on the real code by a complete Kani harness in the same run), vstd Vec/slice model, total list payload fits usize, extractor rewrite rules R1-R4/R6. Decoder side (strict decoder accepts and returns the originals) follows from equality with the injective Yellow-Paper encoding; that lemma is argued in DESIGN.md, not machine-checked yet.',
                explanation='Verus proves rlp::{len,bytes,uint,list} (bodies extracted from /repo each run) equal to the Yellow-Paper encoding for inputs of every length; strict-decoder lemmas are spec-level; Kani pairs give counterexamples and cross-check the assumed usize/U256 interface contracts.',
                trusted=['U256/usize interface contracts assumed in the Verus prelude (cross-checked by xc_* Kani harnesses on the real code)',
                         'sum of item lengths fits usize (true of live allocations)']),
}
