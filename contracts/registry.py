"""Registry of verification units: which Verus units and Kani harnesses decide which property.

KANI entries: name (harness fn name, unique), file (repo-relative source file the harness module is appended
to), fn (function under contract), props {property: tier}, complete (True: loop-free or inherently bounded
over the full symbolic domain => proof; False: bounded stand-in), bound (text), obligation (the contract in
words), replay ('shim' = generic native replay through contracts/replay/kani_shim.rs with stubs off,
'none' = harness depends on stub-recorded state; violation is reported no-failing-input-found), bin (harness
lives in the binary crate), timeout (s).
"""

KANI = []
VERUS = []
NATIVE = []
# harness modules that use helper items (callee-contract stubs) defined in the harness module of another file
FILE_DEPS = {
    'src/mnemonic.rs': ['src/mnemonic/wordlist.rs', 'src/rand.rs'],
    'src/transaction/legacy.rs': ['src/transaction/rlp.rs'],
    'src/transaction/eip2930.rs': ['src/transaction/rlp.rs'],
    'src/transaction/eip1559.rs': ['src/transaction/rlp.rs'],
    'src/transaction/accesslist.rs': ['src/transaction/rlp.rs'],
}


def K(name, file, fn, props, obligation, complete=True, bound='', replay='shim', bin=False, timeout=900, module='verif_kani'):
    KANI.append(dict(name=name, file=file, fn=fn, props=props, obligation=obligation, complete=complete,
                     bound=bound, replay=replay, bin=bin, timeout=timeout, module=module))




def N(name, file, fn, props, obligation, bound, bin=False):
    """native bounded stand-in (never counted as proved)"""
    NATIVE.append(dict(name=name, file=file, fn=fn, props=props, obligation=obligation, bound=bound, bin=bin))


Q, T = 'quick', 'thorough'

TRUSTED_BASE = [
    'rustc (repo stable toolchain for native replay; Kani nightly-2026-08-21; Verus 1.98.1)',
    'Kani 0.68.0 + CBMC 6.11.0 + CaDiCaL; Verus 0.2026.09.13 + Z3; vstd specifications of Vec/slice/integer casts',
    'ethnum 1.5.0 built for Kani with the one-function patch vendor/ethnum-kani.diff (error.rs::tfie, unreachable from hdwallet)',
    'tools/extract.py (mechanical extraction + listed rewrite rules) for the Verus leg',
]

# ---------------------------------------------------------------------------
# C07 — canonical RLP
VERUS.append(dict(
    name='rlp', template='contracts/verus/rlp.rs', props={'C07': Q, 'C06': Q, 'C17': Q}, rlimit=30,
    pairs={'rlp_len': r'c07_len_complete$', 'rlp_bytes': r'c07_bytes_len\d+$', 'uint': r'c07_uint_complete$', 'list': r'c07_list_\w+$'},
))
RLP = 'src/transaction/rlp.rs'
K('c07_len_complete', RLP, 'rlp::len', {'C07': Q, 'C17': Q},
  'len(n, off) == hdr(n, off) (Yellow Paper length header, minimal big-endian length) for all n: usize, off in {0x80,0xc0}; no panic')
K('c07_uint_complete', RLP, 'rlp::uint', {'C07': Q, 'C17': Q},
  'uint(v) == enc_str(be_min(v)) for all v < 2^256: no leading zero byte, 0 -> 0x80, single byte < 0x80 is itself')
for _l in (0, 1, 2, 55, 56):
    K(f'c07_bytes_len{_l}', RLP, 'rlp::bytes', {'C07': Q},
      f'bytes(b) == enc_str(b) for all byte strings of length {_l} (pairing for the unbounded Verus obligation)', complete=False,
      bound=f'|b| == {_l}, content symbolic')
for _n, _b in (('empty', '0 items'), ('small', '3 items of 1,3,2 bytes'), ('long', '3 items of 20 bytes (long header)')):
    K(f'c07_list_{_n}', RLP, 'rlp::list', {'C07': Q},
      'list(xs) == hdr(sum |x_i|, 0xc0) ++ concat(xs) (pairing for the unbounded Verus obligation)', complete=False, bound=_b)
K('c07_iter_small', RLP, 'rlp::iter', {'C07': Q}, 'iter(xs) == list(xs as slices)', complete=False, bound='2 items of 1 and 2 bytes')
for _n, _t in ((1, Q), (12, Q), (17, T)):
    K(f'c07_iter_n{_n}', RLP, 'rlp::iter', {'C07': _t, 'C06': _t},
      'iter(xs) == hdr(total, 0xc0) ++ x_1 ++ ... ++ x_n: every item, in order, none dropped or repeated (the contract of rlp::iter assumed by the typed-transaction and access-list harnesses)',
      complete=False, bound=f'{_n} items of 2 symbolic bytes each', timeout=900)
AL = 'src/transaction/accesslist.rs'
for _n, _b, _t in (('empty', 'no entries', Q), ('e1_k0', 'one entry without keys', Q), ('e1_k2', 'one entry with two keys', Q), ('e1_k3', 'one entry with three keys', T)):
    K(f'c06_access_list_{_n}', AL, 'AccessList::rlp_encode', {'C06': _t, 'C07': _t},
      'AccessList::rlp_encode is the list of, per entry in order, the two-item list [address as a 20-byte string, list of all storage keys of the entry as 32-byte strings, in order]: nothing dropped, merged, reordered or added (rlp::bytes / list / iter as recording callee contracts)',
      complete=False, bound=f'shape: {_b}; addresses and keys symbolic (shapes with two entries did not finish in 15 min)', replay='none', timeout=900)
K('xc_usize_lz_bytes', RLP, 'usize::{leading_zeros,to_be_bytes}', {'C07': Q},
  'cross-check of the interface contracts assumed by the Verus unit: usize::leading_zeros == 64 - bitlen, to_be_bytes == be_fix(n, 8), for all usize')
K('xc_u256_lz_bytes', RLP, 'ethnum::U256::{leading_zeros,to_be_bytes}', {'C07': Q},
  'cross-check of the interface contracts assumed by the Verus unit: U256::leading_zeros == 256 - bitlen, to_be_bytes == be_fix(n, 32), for all U256')

# ---------------------------------------------------------------------------
# C01 / C12 — mnemonic
MN = 'src/mnemonic.rs'
K('c01_byte_length_total', MN, 'mnemonic_to_byte_length', {'C01': Q, 'C12': Q, 'C17': Q},
  'mnemonic_to_byte_length(n): Ok(b) iff n in {12,15,18,21,24}, and then b == 4n/3; for all usize n; never panics')
for _n in range(0, 41):
    _t = Q if _n in (0, 11, 12, 13, 14, 15, 16, 17, 18, 19, 20, 21, 22, 23, 24, 25, 40) else T
    K(f'c01_from_phrase_n{_n}', MN, 'Mnemonic::from_phrase_str', {'C01': _t, 'C17': _t},
      f'from_phrase_str with {_n} words, all word indices / lookup verdicts / hash bytes symbolic (callee contracts: Language::split, Wordlist::search, hash_seed): '
      'Ok iff supported count, every word found and trailing ENT/32 bits == leading hash bits; then len == 4n/3, buf == entropy || hash with the BIP-39 bit layout, exactly the entropy bytes are hashed; never panics / indexes out of bounds',
      complete=True, bound=f'word count {_n} (counts 0..40 one harness each; > 40 refused by the length table, c01_byte_length_total)', replay='none')
for _l in (16, 20, 24, 28, 32):
    K(f'c01_to_phrase_len{_l}', MN, 'Mnemonic::{to_phrase,mnemonic_length}', {'C01': Q, 'C17': Q},
      f'for every 64-byte buffer with len == {_l}: mnemonic_length() == 3*len/4; to_phrase looks up exactly the 11-bit big-endian groups of entropy||hash (each < 2048) and joins the words with single spaces, no trailing separator',
      complete=True, replay='none')
for _n in (12, 15, 18, 21, 24):
    K(f'c01_layout_inverse_n{_n}', MN, 'BIP-39 bit layout (lemma over the two contracts)', {'C01': Q},
      f'for all {_n} word indices: re-reading 11-bit groups (to_phrase contract) of the buffer built per the from_phrase contract yields the same indices: parse and print are mutually inverse',
      complete=True, replay='none')
for _n in (0, 1, 11, 12, 13, 14, 15, 16, 17, 18, 19, 20, 21, 22, 23, 24, 25, 32, 40):
    _t = Q if _n in (0, 11, 12, 13, 14, 15, 16, 18, 20, 21, 23, 24, 25, 40) else T
    K(f'c12_random_n{_n}', MN, 'Mnemonic::random', {'C12': _t, 'C17': _t},
      f'random(lang, {_n}) with getentropy(3) as environment contract (fill-or-fail) and hash_seed as callee contract: Ok iff supported length and the source succeeded; exactly 4n/3 bytes are taken from the source; every entropy byte is the OS byte at that position; the hash is taken over exactly those bytes; unsupported lengths are refused',
      complete=True, replay='none')
for _l in (0, 16, 32):
    K(f'c12_get_entropy_{_l}', 'src/rand.rs', 'rand::get_entropy', {'C12': Q},
      f'get_entropy(buf) with |buf| = {_l}: Ok iff getentropy(3) succeeded; exactly the slice length is taken from the source; buffer == source bytes; nothing outside the slice written', complete=True, replay='none')
N('nb_hash_seed_is_sha256', MN, 'hash_seed', {'C01': Q, 'C12': Q},
  'hash_seed(seed, out) writes SHA-256(seed) to out[..32] and nothing else (the callee contract assumed by the Kani harnesses)', 'native: seed lengths 0..=64, 8 pseudo-random seeds each')
N('nb_entropy_roundtrip_and_checksum', MN, 'Mnemonic::{from_phrase,to_phrase,mnemonic_length,Display}', {'C01': Q},
  'through the public API with the real word list and SHA-256: print == BIP-39 reference words; parse(print) == entropy; all 2048 last-word candidates accepted iff checksum word',
  'native: 5 sizes x (all-zero, all-one, 400 pseudo-random entropies by VERIF_SEED); 2048 last-word candidates for 8 entropies per size')
N('nb_rejections_never_panic', MN, 'Mnemonic::from_phrase', {'C01': Q, 'C17': Q},
  'word counts 0..=40 and unknown/capitalised/truncated words: no panic; accepted only with supported count, known words and reference checksum',
  'native: 33 phrases per word count 0..=40; 8 bad words at each position of a 12- and a 24-word phrase')
N('nb_whitespace_layout', MN, 'Language::split, Mnemonic::from_phrase', {'C01': Q},
  'whitespace layout is irrelevant; Language::split returns the maximal non-whitespace runs', 'native: 212 layouts over 12 separator kinds; all 19608 strings of length <= 5 over {a,b,space,tab,newline,U+00A0,U+3000}')
N('nb_random_parses_back', MN, 'Mnemonic::random', {'C12': Q},
  'with the real OS source: generated phrases have the requested length and parse back; no entropy byte position is constant over the generations; unsupported lengths 0..=40 refused', 'native: 64 generations per supported length, 1 per unsupported length 0..=40')
N('nb_wordlist_ground_facts', 'src/mnemonic/wordlist.rs', 'Wordlist::{parse,search,word}', {'C01': Q},
  'the embedded list has 2048 strictly sorted lower-case words; search(word(i)) == i; search agrees with a linear scan on near misses',
  'exhaustive over the 2048 embedded words (finite constant) + 5 near misses per word')

# ---------------------------------------------------------------------------
# C10 — EIP-191 personal message digest
VERUS.append(dict(
    name='message', template='contracts/verus/message.rs', props={'C10': Q, 'C17': Q}, rlimit=30,
    pairs={'digest': r'c10_digest_len\d+$'},
))
for _l in (0, 1, 9, 10, 11):
    K(f'c10_digest_len{_l}', 'src/message.rs', 'message::digest / EthereumMessage::signing_message', {'C10': Q if _l in (0, 1, 10) else T},
      f'for all messages of {_l} bytes: exactly one Keccak call whose input is 0x19 "Ethereum Signed Message:\\n" ++ decimal length ++ message, and its result is returned (pairing for the unbounded Verus obligation; real std formatting)',
      complete=False, bound=f'message length {_l}, content symbolic', replay='none', timeout=420)
N('nb_eip191_lengths', 'src/message.rs', 'message::digest', {'C10': Q},
  'digest(m) == Keccak-256(0x19 "Ethereum Signed Message:\\n" ++ hand-written decimal length ++ m) with the real formatting and hashing code',
  'native: every length 0..=1100 and 10^k-1, 10^k, 10^k+1 for k = 3..6; three contents each (zeros, 0xff, byte ramp)')

# ---------------------------------------------------------------------------
# C14 — HD path text
PATHF = 'src/hdk/path.rs'
for _l in range(0, 13):
    K(f'c14_component_text_len{_l}', PATHF, 'Component::from_str', {'C14': Q, 'C17': Q},
      f"Component::from_str(s) for ALL ASCII strings of length {_l}: Ok iff s = [+]digits['] with value < 2^31, and then (hardened, value) are the ones written; Err otherwise (empty, negative, fractional, non-numeric, >= 2^31); never panics",
      complete=True, bound=f'all ASCII strings of length {_l} (lengths 0..12 together cover the canonical text of every u32 with and without apostrophe)')
K('c14_component_display', PATHF, 'Component::fmt', {'C14': Q},
  'Component Display prints the canonical decimal digits of the value and a trailing apostrophe iff hardened, for all 2^32 values x both kinds (std u32 Display as callee contract)',
  complete=True)
for _d in range(1, 11):
    K(f'xc_u32_display_d{_d}', PATHF, '<u32 as Display>::fmt', {'C14': Q if _d <= 4 else T},
      f'cross-check of the assumed std contract: u32 Display prints exactly the canonical decimal digits, all values with {_d} digits',
      complete=True, timeout=900 if _d <= 6 else 3600)
for _n in ('empty', 'm', 'no_root', 'slash_root', 'upper_root', 'empty_mid', 'double_root', 'negative', 'fraction', 'limit', 'one', 'bip44'):
    K(f'c14_path_ex_{_n}', PATHF, 'Path::from_str', {'C14': Q if _n in ('no_root', 'empty_mid', 'limit', 'bip44', 'negative') else T},
      'Path::from_str on one concrete text: missing root / empty component / bad component rejected; well-formed text yields the components in order',
      complete=False, bound='one concrete path text (symbolic text makes str::split intractable for CBMC)')
K('c14_path_display', PATHF, 'Path::fmt', {'C14': Q}, 'Path Display is "m" followed by "/component" for each component',
  complete=False, bound='2 components with single-digit values')
N('nb_for_index', PATHF, 'Path::for_index', {'C14': Q, 'C17': Q, 'C16': Q},
  'for_index(i) == m/44\'/60\'/0\'/0/i for i < 2^31, an error (no panic) for i >= 2^31',
  'native execution: every i in 0..=70000, 4096 values around each of 2^31, 2^32, 2^63, and the top 2048 usize values')
N('nb_path_text_enumerated', PATHF, 'Path::from_str, Path::fmt', {'C14': Q, 'C17': Q},
  'Path::from_str(s) agrees with the reference grammar m(/[+]d+\'?)+ with values < 2^31; printing is canonical and parses back to the same components',
  "native execution: all 3.3e6 strings of length <= 6 over {m,M,/,',0,1,9,+,-,.,x,space} plus 26 boundary texts")

# ---------------------------------------------------------------------------
# C11 / C15 — src/account/signature.rs
SIG = 'src/account/signature.rs'
K('c11_v_exact_in_range', SIG, 'Signature::v', {'C11': Q, 'C17': Q, 'C06': Q},
  'v(Some(c)) == 35 + 2c + yParity exactly over the naturals, no overflow check fires, for all c <= 2^255 - 19 (every c for which the sum fits 256 bits) and both parities')
K('c11_v_none', SIG, 'Signature::v', {'C11': Q, 'C06': Q}, 'v(None) == 27 + yParity')
K('c15_from_str_modular_130', SIG, 'Signature::from_str', {'C15': Q, 'C17': Q},
  'from_str on all 130-character ASCII strings with hex::decode_to_slice as callee contract: the payload is handed to the decoder unchanged; Ok iff decode Ok, v in {27,28}, 0<r<n, 0<s<n; (r,s,yParity) are the decoded values; never panics',
  timeout=1500)
K('c15_from_str_modular_132', SIG, 'Signature::from_str', {'C15': Q, 'C17': Q},
  'same contract on all 132-character ASCII strings: an optional leading 0x is removed, nothing else', timeout=1500)
K('c15_from_str_other_lengths', SIG, 'Signature::from_str', {'C15': Q, 'C17': Q},
  'from_str rejects every ASCII string of any other length 0..140 (real hex decoder); never panics', timeout=1500)
K('c15_hex_contract_n65', SIG, 'hex::decode_to_slice', {'C15': Q},
  'the callee contract assumed by the modular harnesses holds for the real hex crate on all 130-byte inputs: Ok iff all hex digits (either case); bytes are the digit values', timeout=1500)
for _n in ('n2', 'n2_short', 'n2_long'):
    K(f'c15_hex_contract_{_n}', SIG, 'hex::decode_to_slice', {'C15': Q}, 'hex::decode_to_slice contract at |out| = 2 (exact, short and long input)')
K('c15_display_exact', SIG, 'Signature::fmt', {'C15': Q},
  'Display prints 0x, the 64 lower-case hex digits of r, the 64 of s and 1b/1c, for all valid (r, s, parity) (ethnum LowerHex as callee contract)', timeout=1500)
K('c15_accessors', SIG, 'Signature::{r,s,y_parity}', {'C15': Q, 'C06': Q, 'C11': Q}, 'r(), s(), y_parity() return the stored scalars / parity for all valid signatures')
K('c15_from_str_len130', SIG, 'Signature::from_str', {'C15': T, 'C17': T},
  'monolithic: from_str on all 130-character ASCII strings with the real hex decoder: Ok iff 130 hex digits, v in {27,28}, 0<r<n, 0<s<n; values equal; never panics', timeout=2400)
K('c15_from_str_len132', SIG, 'Signature::from_str', {'C15': T, 'C17': T},
  'monolithic: from_str on all 132-character ASCII strings: Ok iff 0x + valid payload', timeout=2400)

# ---------------------------------------------------------------------------
# C08 / C09 / C20 — typed data
TD = 'src/typeddata.rs'
K('c09_encode_uint_range', TD, 'Types::encode_value (uintN arm)', {'C09': Q, 'C08': Q, 'C17': Q},
  'for all 32 widths N and all 2^256 values the number parser may return: encode_value(uintN, v) is Ok iff v < 2^N, and the word is v as 32 big-endian bytes (serialization::uint::deserialize as callee contract)',
  complete=True, replay='none')
K('c09_encode_int_range', TD, 'Types::encode_value (intN arm)', {'C09': Q, 'C08': Q, 'C17': Q},
  'for all 32 widths N and all 2^256 two\'s complement values: encode_value(intN, v) is Ok iff -2^(N-1) <= v < 2^(N-1), and the word is the sign-extended 32-byte value (ethnum permissive::deserialize::<I256> as callee contract)',
  complete=True, replay='none')
K('c09_encode_bytes_n', TD, 'Types::encode_value (bytesN arm)', {'C09': Q, 'C08': Q, 'C17': Q},
  'for N = 1..32 and every payload of 0..40 bytes: Ok iff the payload has exactly N bytes; the word is the payload left-aligned and zero padded (serialization::bytes::deserialize as callee contract)',
  complete=True, replay='none', bound='payload length <= 40 (the comparison is on usize; longer payloads take the same branch)')
K('c08_encode_bool', TD, 'Types::encode_value (bool arm)', {'C08': Q}, 'bool encodes as the 32-byte word 0 / 1', complete=True, module='verif_kani2')
K('c08_encode_bytes_dynamic', TD, 'Types::encode_value (bytes arm)', {'C08': Q},
  'dynamic bytes encode as Keccak-256 of exactly the payload (Digest::of as recording callee contract), payloads of 0..40 bytes', complete=False, bound='payload <= 40 bytes', replay='none', module='verif_kani2')
N('nb_eip712_type_graphs_vs_reference', TD, 'TypedData (encode_type, struct_hash, encode_value, compute)', {'C08': Q, 'C17': Q},
  'signing digest, domain separator and message hash equal a reference EIP-712 implementation written from the standard (dependency closure exactly once in name order, primary never repeated, member encodings, arrays, nested structs)',
  'native: 4368 member lists (1..=3 members over 16 kinds incl. struct refs, nested/fixed arrays, recursive P[]) x 5 helper-struct graphs (independent, chains, shared/repeated deps, mutual recursion) = 21840 documents with conforming values')
N('nb_eip712_nonconforming_values_refused', TD, 'TypedData value conformance', {'C09': Q, 'C08': Q, 'C17': Q},
  'a document is refused exactly when the reference says a value is not a value of its declared type; accepted documents hash to the reference value',
  'native: all 32 widths x 8 range boundaries x uintN/intN x number/decimal/hex/float spellings; bytesN N-1,N,N+1 for N=1..32; fixed arrays size-1,size,size+1 (size 0..3, also nested); 16 JSON kinds x 12 type kinds; missing/undeclared members (also for member-less structs); each offending value also nested inside a struct inside an array (about 3700 documents)')
N('nb_domain_types_enumerated', TD, 'TypedDataBlob::verify_domain_type / compute', {'C20': Q},
  'exactly the 31 well-formed EIP712Domain types are accepted (and hash to the reference value); every other sequence, any type substitution, and a missing domain type are refused',
  'native: all 9331 member sequences of length 0..=5 over the five standard names + one foreign name; 14 type substitutions at every position of each of the 31 well-formed domains; up to 12 near-miss spellings of each standard name (letter case, padding, NUL, plural, truncation, combining mark, homoglyph) at every position of each of the 31; missing EIP712Domain (about 11300 documents)')
N('nb_member_kind_grammar', TD, 'MemberKind::{from_str, Display}', {'C08': Q, 'C17': Q},
  'member type strings parse to the kind the reference grammar assigns and print back unchanged; 64 array suffixes do not overflow the stack',
  'native: 11 base words + 11 non-ASCII names (Unicode numerics, digits after multi-byte characters) + bytes0..40 + uint/int 0..300 + 13 non-canonical spellings (uint08, uint+8 …) with array-suffix combinations up to depth 3 over 8 size spellings (about 600000 strings) + one depth-64 string')

# ---------------------------------------------------------------------------
# C04 — account
ACC = 'src/account.rs'
K('c04_new_32_bytes', ACC, 'PrivateKey::{new,secret}', {'C04': Q, 'C17': Q},
  'for all 32-byte strings b: PrivateKey::new(b) is Ok iff 0 < b < n (secp256k1 order), and then secret() == b (real k256 range check)')
for _l in (0, 1, 16, 23, 24, 31, 33, 64):
    K(f'c04_new_len{_l}', ACC, 'PrivateKey::{new,secret}', {'C04': Q, 'C17': Q},
      f'for all byte strings of length {_l}: rejected, or taken as the same big-endian integer (zero-extended to 32 bytes); never panics', complete=True,
      bound=f'length {_l}; lengths 0..64 other than those listed are not machine-checked')
K('c04_address_is_keccak_tail', ACC, 'PrivateKey::address', {'C04': Q},
  'address() hashes exactly the 64 coordinate bytes of the uncompressed encoding (tag byte dropped) with one Keccak call and returns the last 20 bytes of the digest (encode_uncompressed and Digest::of as callee contracts)',
  complete=True, replay='none')

# ---------------------------------------------------------------------------
# C06 / C11 / C13 — transactions
LEG, E29, E15, SER, TXN = 'src/transaction/legacy.rs', 'src/transaction/eip2930.rs', 'src/transaction/eip1559.rs', 'src/serialization.rs', 'src/transaction.rs'
for _n, _d in (('signed_chain', 'signed, chain id present, recipient present'), ('signed_nochain', 'signed, no chain id, no recipient'),
               ('unsigned_chain', 'unsigned, chain id present, no recipient'), ('unsigned_nochain', 'unsigned, no chain id, recipient present')):
    K(f'c06_legacy_{_n}', LEG, 'LegacyTransaction::rlp_encode', {'C06': Q, 'C11': Q},
      'legacy encoding is one RLP list of [nonce, gasPrice, gas, to | empty string, value, data] followed by (v = 35 + 2*chainId + yParity | 27 + yParity, r, s) when signed, (chainId, 0, 0) when unsigned with a chain id, nothing otherwise; every field value symbolic (element encoders as recording callee contracts, proved in C07)',
      complete=True, bound=f'shape: {_d}; 2 bytes of calldata; all numeric values, recipient, calldata bytes, parity symbolic', replay='none', timeout=900)
for _k, _f, _ty, _fields in (('eip2930', E29, '0x01', 'chainId, nonce, gasPrice, gas, to | empty string, value, data, accessList'),
                             ('eip1559', E15, '0x02', 'chainId, nonce, maxPriorityFeePerGas, maxFeePerGas, gas, to | empty string, value, data, accessList')):
    for _n, _d in (('signed_to', 'signed, recipient present'), ('signed_create', 'signed, no recipient'),
                   ('unsigned_to', 'unsigned, recipient present'), ('unsigned_create', 'unsigned, no recipient')):
        _t = T if _n == 'signed_create' else Q
        K(f'c06_{_k}_{_n}', _f, f'{_k.capitalize()}Transaction::rlp_encode', {'C06': _t, 'C11': Q if _n == 'unsigned_to' else T},
          f'{_k} encoding is the type byte {_ty} followed by exactly one RLP list of [{_fields}] and, when signed, (yParity, r, s) - nothing else, in this order, every field value symbolic, chainId the first signed field (element encoders, AccessList::rlp_encode and rlp::iter as recording callee contracts, proved / paired in C07)',
          complete=True, bound=f'shape: {_d}; 2 bytes of calldata; all numeric values, recipient, calldata bytes, parity symbolic; the access list is an opaque callee (identity recorded)', replay='none', timeout=1200)
K('c11_chain_id_invariant', LEG, 'legacy::deserialize_chain_id', {'C11': Q, 'C06': Q, 'C17': Q},
  'a deserialized legacy chain id is kept unchanged, and is refused iff 35 + 2c + 1 does not fit 256 bits: the precondition under which Signature::v is exact (c11_v_exact_in_range) holds for every LegacyTransaction built from JSON',
  complete=True, replay='none')
for _h in ('c13_visitor_u256_from_u64', 'c13_visitor_u256_from_nonneg_i64', 'c13_visitor_u256_from_nonneg_f64', 'c13_visitor_i256_from_i64', 'c13_visitor_i256_from_f64'):
    K(_h, SER, 'ethnum permissive visitor as instantiated by serialization::uint / typeddata', {'C13': Q, 'C09': Q, 'C17': Q},
      'for every JSON number of that Rust type: taken at exactly its mathematical value, or refused when fractional / not exactly representable (|x| >= 2^53)', complete=True)
for _l in (0, 1, 2, 3, 4, 5, 6, 8, 12):
    _t = Q if _l <= 4 else T
    K(f'c13_bytes_text_len{_l}', SER, 'serialization::bytes::deserialize', {'C13': _t, 'C09': T, 'C17': T},
      f'byte fields (calldata, typed-data bytes): for EVERY ASCII text of {_l} characters, accepted iff it is 0x followed by an even number of hex digits of either case, and then the bytes are the digit pairs written; a missing or repeated prefix, an odd digit count or a foreign character is an error; never panics',
      complete=True, bound=f'texts of {_l} ASCII characters (one harness per length; the deserializer is serde\'s StrDeserializer, i.e. the text of a JSON string)', module='verif_kani_bytes', timeout=900)
for _l in (2, 4, 64, 65, 66, 68):
    _t = Q if _l in (4, 65, 66) else T
    K(f'c13_key_text_len{_l}', SER, 'serialization::bytearray::deserialize::<_, 32>', {'C13': _t, 'C17': T},
      f'storage keys: for EVERY ASCII text of {_l} characters, accepted iff it is 0x followed by exactly 64 hex digits, and then the 32 bytes are the digit pairs written; shorter or longer keys are refused, never padded or truncated',
      complete=True, bound=f'texts of {_l} ASCII characters', module='verif_kani_bytes', timeout=900)
N('nb_tx_encoding_vs_reference', TXN, 'Transaction::{deserialize, signing_message, encode}', {'C06': Q, 'C07': Q, 'C11': Q},
  'signed bytes and signing digest equal a reference encoder written from the Yellow Paper / EIP-155 / 2930 / 1559; a strict decoder accepts the output, consumes it completely and returns every field',
  'native: 3 kinds x 68 calldata lengths (0..=60, 255..257, 1100, 65535..65537) x 3 random field draws (byte widths 0..32, access lists up to 3x3) x 3 signatures (r,s at 1, n-1, random; both parities); 20 structured access lists (repeated keys / addresses, empty key lists, zero and 0xff keys, 16 / 17 / 40 / 256 keys per entry, 17 / 33 / 70 entries) for both typed kinds')
N('nb_bip32_published_vectors', 'src/hdk.rs', 'hdk::derive', {'C16': Q},
  'hdk::derive reproduces BIP-32 test vector 1 (the only independent oracle for the derivation the selected-account clause rests on; C03 itself is not decidable here)',
  'native: 5 published chain links (hardened and normal indices, index 10^9)')
N('nb_ganache_published_accounts', 'src/hdk.rs', 'hdk::derive o Path::for_index o Mnemonic::seed', {'C16': Q},
  'the key at m/44\'/60\'/0\'/0/i of the ganache mnemonic is the published `ganache --deterministic` account i',
  'native: accounts 0..9 (published addresses)')
N('nb_tx_kind_dispatch', TXN, 'Transaction::deserialize', {'C06': Q}, 'EIP-1559 when a fee-market field is present, else EIP-2930 when an access list is present, else legacy', 'native: all 8 key-presence combinations')
N('nb_tx_json_number_spellings', TXN, 'transaction field deserialization', {'C13': Q, 'C11': Q},
  'every spelling of an integer denotes the same value and gives the identical encoding; negative, fractional, inexact, >= 2^256, empty and non-numeric spellings are refused; bytes need 0x + even hex; addresses 20 bytes; storage keys 32 bytes; legacy chain ids beyond 2^255-19 refused',
  'native: 16 numeric fields x 14 integers x up to 6 spellings; 30 malformed spellings per field; 12 byte/address and 7 access-list malformations per kind')

K('c08_compute_composition', 'src/typeddata.rs', 'TypedDataBlob::compute', {'C08': Q, 'C09': Q, 'C20': Q},
  'compute, for every verdict and digest of its callees (verify_domain_type, Types::struct_hash, Digest::of as recording callee contracts): the domain type is verified first and a refusal ends the computation before anything is hashed; then hashStruct("EIP712Domain", .) and hashStruct(primaryType, .) in this order and nothing else; a refused value is an error and no digest is produced; otherwise the signing digest is one Keccak call over exactly 0x19 0x01 || domainSeparator || hashStruct(message), and the three digests are returned unchanged',
  complete=True, bound='the two JSON objects of the document are empty (which object each hashStruct call receives is therefore not observable here; covered natively)', replay='none', timeout=600, module='verif_kani4')
# C20 — domain type check under contract (bounded by member count and name length, content symbolic)
for _n in range(0, 7):
    K(f'c20_domain_members_{_n}', 'src/typeddata.rs', 'TypedDataBlob::verify_domain_type', {'C20': Q if _n <= 2 else T, 'C17': T},
      f'verify_domain_type on a domain type of {_n} members (Types::type_definition as recording callee contract: asked for "EIP712Domain" exactly once): Ok iff the members are a non-empty, order-preserving, duplicate-free selection of name:string, version:string, chainId:uint256, verifyingContract:address, salt:bytes32 with exactly those types; never panics',
      complete=False, bound=f'{_n} members; each name any ASCII string of 3, 4, 7 or 17 bytes (the lengths of the five standard names and one other length), each type any of String, Uint(n), Int(n), Address, Bytes(Some(n)), Bytes(None), Bool, Struct, String[], Uint(n)[n] with n any u32',
      replay='none', timeout=1800, module='verif_kani3')
# ---------------------------------------------------------------------------
# bin crate: C16 key selection, C18 vanity prefix, C19 hex; process-level native stand-ins
CMD, NEW, CLI = 'src/cmd.rs', 'src/cmd/new.rs', 'tests/verif_native_cli.rs'
K('c16_private_key_selection', CMD, 'AccountOptions::private_key', {'C16': Q, 'C17': Q},
  'for any passphrase, account index, hd_path absent/present and any callee verdicts: the passphrase reaches Mnemonic::seed unchanged; without hd_path the path is Path::for_index(account_index), with it the parsed text (index ignored); an invalid path is an error and nothing is derived; hdk::derive receives that seed and that path and its result is returned unchanged',
  complete=True, bin=True, replay='none', bound='passphrase / path text <= 4 ASCII bytes (copied verbatim by the code; content symbolic)')
for _d in (0, 1, 2, 3, 4, 5, 6, 7, 8, 40, 41):
    K(f'c18_prefix_from_str_d{_d}', NEW, 'Prefix::from_str', {'C18': Q if _d <= 5 else T, 'C17': Q if _d <= 5 else T},
      f'Prefix::from_str("0x" + any {_d} ASCII characters): Ok iff all are hex digits of either case; bytes / trailing nibble are the digit values; never panics',
      complete=True, bin=True, bound=f'{_d} characters after 0x, content symbolic')
for _l in (0, 1, 2, 4):
    K(f'c18_prefix_missing_0x_len{_l}', NEW, 'Prefix::from_str', {'C18': Q if _l < 4 else T, 'C17': Q if _l < 4 else T},
      f'every ASCII string of length {_l} that does not start with 0x is refused', complete=True, bin=True)
for _k in range(0, 23):
    K(f'c18_matches_k{_k}', NEW, 'Prefix::matches', {'C18': Q if _k in (0, 1, 2, 3, 19, 20, 21) else T},
      f'Prefix::matches for {_k} whole bytes and an optional trailing nibble, all 2^160 addresses: true iff the address begins with exactly those hex digits',
      complete=True, bin=True)
N('nb_prefix_parse_and_match', NEW, 'Prefix::{from_str,matches}', {'C18': Q, 'C17': Q},
  'every 1..3-digit prefix in every case combination parses and matches exactly the addresses whose hex starts with it; short texts parse iff 0x + hex digits',
  'native: all 22 + 22^2 + 22^3 prefixes x 2048 addresses; all 2 x 11111 strings of length <= 4 over {0,9,a,f,A,F,g,x,-,space}', bin=True)
N('nb_permissive_hex_enumerated', CMD, 'cmd::permissive_hex', {'C19': Q, 'C17': Q},
  'permissive_hex(s) == reference decoder (drop whitespace, optional 0x, even number of hex digits of either case); never panics',
  'native: all 1.8e7 strings of length <= 6 over {0,1,9,a,f,A,F,g,x,X,space,tab,newline,U+00A0,U+3000,-}', bin=True)
N('nb_hex_roundtrip_and_layouts', CMD, 'cmd::permissive_hex o hex::encode', {'C19': Q},
  'decode(encode(b)) == b; encode is 0x + two lower-case digits per byte; six layouts decode to the same bytes; odd digit count / foreign character rejected',
  'native: one byte string of every length 0..=4096 (all 256 byte values) and all 65536 two-byte strings', bin=True)
N('nb_cli_account_commands', CLI, 'address / export / public-key commands', {'C16': Q},
  'address, export, public-key print the EIP-55 address, 0x-hex secret and uncompressed public key of the key the library derives for the selector; flags == environment; the two selectors conflict',
  'native CLI: 2 mnemonics x 3 passphrases x 8 selectors x 3 commands x {flags, environment}; ganache account indices 0..=40 and 486 x 3 commands; 7 invalid paths (flag and environment) and 3 invalid indices x 3 commands')
N('nb_cli_sign_hash_pairing', CLI, 'sign / hash commands', {'C16': Q, 'C15': Q, 'C11': Q},
  'every sign subcommand signs (low-s, recoverable to the selected key) exactly the digest the matching hash subcommand prints; hash --signature == keccak(sign output), with and without 0x; legacy without chain id refused in both output modes unless the override flag is given (then v in {27,28}); hash data / --message-hash',
  'native CLI: 3 account selectors x (3 messages, 3 transactions, typed data, raw) + guard cases')
N('nb_cli_malformed_inputs_are_ordinary_errors', CLI, 'every CLI parser', {'C17': Q, 'C09': Q, 'C13': Q, 'C14': Q, 'C15': Q},
  'malformed input to every parser named in C17 yields a non-zero, non-panic exit with a message and no output; 64 array suffixes are accepted',
  'native CLI: about 250 listed malformed inputs (word counts, indices, paths, signatures, digests, transaction / typed-data JSON, hex, vanity prefixes, lengths, unreadable input files for every file-reading command)')
N('nb_cli_hex_commands', CLI, 'hex encode / hex decode commands', {'C19': Q, 'C17': Q},
  'through the real binary: encode prints 0x + two lower-case digits per byte, decode(encode(b)) == b byte for byte (stdin and file input), all whitespace / case / prefix / multi-line layouts decode to the same bytes, malformed input (also on a later line) yields a non-zero exit and no output at all',
  'native CLI: 8 byte strings (empty, NUL, all 256 values, 5000 bytes) x stdin/file; 8 layouts; 9 malformed inputs')
N('nb_cli_vanity_search', CLI, 'new --vanity-prefix', {'C18': Q, 'C12': Q},
  'the printed phrase is a valid mnemonic of the requested length whose selected account address starts with the requested digits (case-insensitive), for every thread count',
  'native CLI: 27 prefixes (all single digits both cases, four 2-digit, one 3-digit) x thread counts 0,1,2,16 x rotating vanity options, 2 repetitions for 1-digit prefixes')

# ---------------------------------------------------------------------------
# C17 is the union of the safety obligations of the harnesses above; its quick tier re-runs a representative subset (one or
# two harnesses per entry point named in the statement), its thorough tier all of them.
_C17_QUICK = {
    'c01_byte_length_total', 'c01_from_phrase_n12', 'c01_from_phrase_n13', 'c01_from_phrase_n14', 'c01_from_phrase_n24', 'c01_from_phrase_n25',
    'c01_to_phrase_len32', 'c12_random_n12', 'c12_random_n13', 'c14_component_text_len0', 'c14_component_text_len10', 'c14_component_text_len11',
    'c15_from_str_other_lengths', 'c15_from_str_modular_130', 'c11_v_exact_in_range', 'c11_chain_id_invariant', 'c04_new_32_bytes', 'c04_new_len0',
    'c04_new_len33', 'c09_encode_uint_range', 'c09_encode_int_range', 'c09_encode_bytes_n', 'c13_visitor_u256_from_nonneg_f64', 'c13_visitor_i256_from_i64',
    'c18_prefix_from_str_d1', 'c18_prefix_from_str_d2', 'c16_private_key_selection', 'c07_len_complete', 'c07_uint_complete',
}
for _h in KANI:
    if 'C17' in _h['props']:
        _h['props']['C17'] = Q if _h['name'] in _C17_QUICK else T

# ---------------------------------------------------------------------------
NOT_APPLICABLE = {
    'C02': 'the property is the definition of PBKDF2-HMAC-SHA512 and NFKD in the pbkdf2/hmac/sha2/unicode-normalization dependencies; no contract within reach of Verus (cannot link the crates) or Kani (2048x2 SHA-512 compressions on symbolic input; trait-method call sites cannot be stubbed) can express or decide it',
    'C03': 'derive_slice interleaves its glue with HMAC-SHA512, SEC1 compression and secp256k1 scalar addition from hmac/k256 inside one loop body; those trait-method calls cannot be cut out by Kani stubs nor seen by Verus, and symbolic HMAC/EC arithmetic has no tractable encoding or independent oracle',
    'C05': 'try_sign is a single call into k256 RFC 6979 signing; validity, recoverability, low-s and RFC 6979 equality are theorems about secp256k1/HMAC-DRBG in the dependency that neither installed verifier can express',
}

PROPS = {
    'C04': dict(level='proof',
                technique='Kani/CBMC contracts on the real PrivateKey::new / secret (k256 range check over all 32-byte values) and PrivateKey::address (callee contracts for the point encoding and Keccak)',
                claim='Proved: a 32-byte secret is accepted iff it is in [1, n-1] and is stored unchanged; byte strings of lengths 0, 1, 16, 23, 24, 31, 33, 64 are rejected or taken as the same big-endian integer; the address is the last 20 bytes of one Keccak-256 call over exactly the 64 coordinate bytes. NOT decided (dependency theorems, assumed): the public key is secret*G in 65-byte SEC1 form (k256), Keccak-256 itself (ethdigest), the EIP-55 display casing (ethaddr).',
                note='The claim is restricted to the three clauses above; the elliptic-curve and hash clauses of C04 are properties of k256 / ethdigest / ethaddr that no contract within reach can express (same reason as C05). encode_uncompressed (4 lines of dependency calls) is trusted to return 0x04 || X || Y.'),
    'C06': dict(level='proof',
                technique='Kani/CBMC contracts on the real LegacyTransaction / Eip2930Transaction / Eip1559Transaction::rlp_encode with the element encoders (and, for the typed kinds, AccessList::rlp_encode and rlp::iter) as recording callee contracts (proved in the C07 Verus unit, which runs again here); native reference-encoder stand-in for kind dispatch, access lists and the JSON layer',
                claim='Proved for legacy transactions in all four shapes (signed/unsigned x chain id present/absent), every numeric value, recipient, calldata byte and parity symbolic: the output is one RLP list of exactly [nonce, gasPrice, gas, to | empty, value, data] plus the tail (35 + 2c + p | 27 + p, r, s), (c, 0, 0) or nothing; rlp::{len,bytes,uint,list} are proved equal to the Yellow-Paper encoding for all inputs (Verus). Proved for EIP-2930 and EIP-1559 in all four shapes each (signed/unsigned x recipient present/absent), every value symbolic: the output is the type byte 0x01 / 0x02 followed by exactly one list whose items are, in order, [chainId, nonce, gasPrice | maxPriorityFeePerGas, maxFeePerGas, gas, to | empty, value, data, accessList] plus (yParity, r, s) when signed. Kind dispatch (Transaction enum), the contents of non-empty access lists and the JSON-to-field mapping are covered only by the bounded native differential against a reference encoder with a strict decoder (1836 signed encodings).',
                note='Eip2930/Eip1559 rlp_encode exhaust CBMC memory when rlp::iter runs for real (collect + list over 9-12 token vectors); with rlp::iter as a recording callee contract (its own contract, iter(xs) == list(xs), is the Verus obligation on list plus the c07_iter pairing) they discharge in 1.5-5 min per shape. Transaction::{signing_message, encode} dispatch cannot be compiled by Kani 0.68 (internal error on the niche-encoded Transaction enum discriminant). "Recovers to the signer" needs C05 (not applicable). Keccak-256 assumed.',
                jobs=10),
    'C11': dict(level='proof',
                technique='Kani/CBMC contracts: Signature::v over all representable chain ids on the real ethnum arithmetic, the deserialization invariant that establishes its precondition, and the legacy EIP-155 tails',
                claim='Proved: v(Some(c)) == 35 + 2c + yParity exactly over the naturals for every c <= 2^255 - 19 (every c for which the value fits 256 bits), v(None) == 27 + yParity; every legacy chain id accepted from JSON satisfies that bound (larger ones are refused with an error), so no wrap-around is reachable; the unsigned legacy payload ends in (c, 0, 0) iff a chain id is present and the signed one carries that v. The refusal to sign an unprotected legacy transaction without the override flag is checked only by the bounded native CLI stand-in (Kani 0.68 cannot compile a match on the Transaction enum).',
                jobs=10,
                note='Typed transactions carry the chain id as first signed field: proved by the c06_eip2930_* / c06_eip1559_* contracts (see C06). "A signature for one chain id never validates under another" additionally needs collision resistance of Keccak and C05; assumed.'),
    'C13': dict(level='proof',
                technique='Kani/CBMC contracts on the real ethnum permissive visitor as instantiated by this crate, over every u64 / i64 / f64 JSON number; native stand-in for strings and for the repository\'s negative-number guard',
                claim='Proved for every JSON number: a non-negative integer or float is taken at exactly its mathematical value or refused (fractional, >= 2^53 floats), for unsigned fields and for signed typed-data values. Proved for byte fields and storage keys (every ASCII text of 0..4 characters in quick, 5, 6, 8, 12 in thorough, resp. of 4, 65, 66 characters - 2, 64, 68 in thorough): accepted iff 0x + an even number of hex digits, resp. 0x + exactly 64 hex digits, and the bytes are the digit pairs. Bounded (native): the repository helper that refuses negative numbers before delegating, decimal / hex string spellings (14 integers incl. the 2^53, 2^64, 2^255-19, 2^256 boundaries, 30 malformed spellings) on all 16 numeric fields, byte / address / storage-key rules, identical encodings for equal integers.',
                note='serialization::uint::deserialize itself (serde_json Value round trip) does not terminate under CBMC and its dependency trait impl cannot be stubbed, so the negative-number guard is only in the native stand-in. Observation (dependency behaviour, not claimed as a defect): the signed visitor accepts the float -2^53, the one point where a float literal may already have been rounded by the JSON parser. ethaddr address parsing is dependency code (assumed).'),
    'C16': dict(level='other',
                technique='Kani/CBMC data-flow contract on the real AccountOptions::private_key with recording callee stubs; process-level native stand-in for everything clap / stdout / environment',
                claim='PARTIAL. Proved: for any passphrase, account index and optional path text, the key returned is hdk::derive(mnemonic.seed(passphrase), path) where path is Path::for_index(account_index) without --hd-path and the parsed text with it (the index then being ignored), errors propagate and nothing is derived for an invalid selector. Bounded (native CLI): address / export / public-key print the library\'s values for 2 mnemonics x 3 passphrases x 8 selectors, flags == environment variables, the selectors conflict, every sign subcommand signs exactly the digest the matching hash subcommand prints (recovered to the selected key).',
                note='clap derive output (flag/env equivalence, conflicts_with, defaults), stdout text and exit status are not visible to a sequential contract verifier; Path::for_index is a native bounded stand-in (C14); BIP-32 derivation and ECDSA are C03/C05 (not applicable).',
                explanation='Data flow of the account selector is decided by one complete Kani harness with all callees as recording stubs; the printed results and sign/hash pairing are exercised through the real binary on an enumerated set of selectors and inputs (bounded, stated in the evidence).',
                native_timeout=2400),
    'C17': dict(level='proof',
                technique='union of the panic / overflow / bounds / unwinding obligations of every complete Kani harness and Verus unit of the other properties, run under the weakest preconditions; process-level native stand-in for exit codes',
                claim='For each entry point listed in the evidence (mnemonic phrases of 0..40 words, length table, Mnemonic::random, path components up to 12 characters, signature text up to 140 characters, Signature::v with the deserialization invariant, private-key bytes, uintN/intN/bytesN values, JSON numbers, vanity prefix text and matching, RLP lengths of every size) Kani\'s default checks (panic, unwrap, arithmetic overflow, out-of-bounds, invalid shift, pointer validity) and unwinding assertions, resp. Verus\' overflow / bounds / termination obligations, are discharged over the full symbolic domain of the harness. Bounded (native): about 250 malformed inputs through the real CLI end in an ordinary error (non-zero exit that is not a panic, message, no output), 64 array suffixes are accepted; TERMINATION is observed natively only: every evaluation of the typed-data code on the 21840 enumerated type graphs (incl. self-, mutually- and indirectly recursive ones) and ~3700 non-conforming documents, and every CLI child process, runs under a watchdog that reports the input on which the code did not return (60 s library / 600 s process).',
                note='Not decided here: the digest CLI argument (ethdigest FromStr), JSON nesting up to 128 (serde_json), worker counts (threads), the mapping of errors to exit status in main.rs and termination of the vanity search are process / dependency level and only exercised by the native CLI stand-in; typed-data type strings and hex input are native bounded stand-ins (C08, C19).',
                native_timeout=2400, jobs=16),
    'C09': dict(level='proof',
                technique='Kani/CBMC contracts on the real Types::encode_value integer and bytesN arms over all values and widths; native differential stand-in for the JSON / collection layer',
                claim='The range logic is proved: for every width and every 256-bit value, uintN is accepted iff v < 2^N, intN iff -2^(N-1) <= v < 2^(N-1), bytesN iff the payload has exactly N bytes (payloads up to 40 bytes), with the exact word layout. The remaining clauses (negative numbers for unsigned types in every spelling, fixed array sizes, missing / undeclared members, undefined struct types, wrong JSON kinds, nothing hashed on refusal) are checked only by the bounded native differential against a reference implementation.',
                note='Callee contracts in the proofs: the JSON-to-integer parsers return any 256-bit value (their own behaviour, e.g. refusing negative numbers, is C13). Bounded, not proved: everything that goes through serde_json::Value / HashMap / Vec<Value> (CBMC does not finish on Value drop glue and BTreeMap). TypedDataBlob::compute ordering ("verified before anything is hashed", no digest after a refusal) is proved by c08_compute_composition with its callees as contracts.'),
    'C08': dict(level='exploration',
                technique='bounded stand-in: native differential against a reference EIP-712 implementation written from the standard; Kani contracts only on the atomic word encoders',
                claim='BOUNDED, not proved: on 21840 enumerated type graphs (1..3 members over 16 kinds, 5 dependency-graph shapes including shared, repeated, self- and mutually-recursive references through arrays) with conforming values the three digests equal the reference implementation; the member type grammar is enumerated (55590 strings). Proved by Kani: the 32-byte word layout of uintN / intN / bytesN / bool and bytes = keccak(payload); the top-level composition in TypedDataBlob::compute (domain type verified first, the two struct hashes in order, digest = keccak(0x19 0x01 || domainSeparator || hashStruct(message)), errors propagate and nothing is hashed after a refusal) for every verdict and digest of its callees.',
                note='encode_type (work list over HashMap/BTreeMap + write!) and struct_hash (serde_json::Map) could not be brought within reach of either verifier: Verus has no model of these collections or of serde, CBMC does not terminate on serde_json::Value drop glue / BTreeMap even with every callee stubbed (probed, see DESIGN.md). Keccak-256 is a dependency in both the code and the reference.'),
    'C20': dict(level='model_checking',
                technique='Kani/CBMC bounded contract harnesses on the real TypedDataBlob::verify_domain_type (member counts 0..6, symbolic names and types) plus native exhaustive enumeration of domain member sequences against the rule written from the property statement',
                claim='BOUNDED (not an unbounded proof): for member counts 0, 1, 2 (quick; 3..6 in thorough) and every combination of member names (all ASCII strings of 3, 4, 7 or 17 bytes) and member types (ten kinds, widths symbolic) verify_domain_type accepts iff the members are a non-empty, order-preserving, duplicate-free selection of the five standard fields with their standard types, and it asks for the type named EIP712Domain (CBMC on the real function, Types::type_definition as callee contract). Native: all 9331 sequences of up to five members over the five standard names plus a foreign name are accepted iff they are one of the 31 well-formed domains and each accepted domain hashes to the reference value; 14 type substitutions and near-miss names at every position and a missing domain type are refused.',
                note='Member counts above 6 are not machine-checked (a seventh member repeats a name or is foreign: pigeon-hole, argued); names of lengths other than 3, 4, 7, 17 are represented by the 3-byte names (a name of a different length cannot equal a standard name; String == &str compares lengths first - std, assumed). Types::type_definition (HashMap lookup) is a callee contract in the Kani harnesses and exercised natively. "Before anything is hashed" (call order in compute) is proved by the complete harness c08_compute_composition (callees as recording contracts, empty JSON objects).',
                jobs=8),
    'C18': dict(level='proof',
                technique='Kani/CBMC contracts on the real Prefix::from_str (per digit count, symbolic content) and Prefix::matches (all prefix lengths x all addresses); native process-level stand-in for the search and threads',
                claim='Prefix::from_str is proved for 0..5 arbitrary ASCII characters after 0x (quick; 6, 7, 8, 40, 41 in thorough) and for all short texts without 0x: accepted iff hexadecimal in either case, digit values exact, never panics; Prefix::matches is proved for prefix lengths 0-3 and 19-21 bytes (+ nibble) in quick, every length 0..22 in thorough, against all 2^160 addresses. That the generator prints a phrase whose own account matched, for every thread interleaving, is NOT decidable by a sequential contract verifier: covered only by the bounded native CLI stand-in (27 prefixes x 4 thread counts).',
                note='Not decided: thread schedules of the vanity search (Kani has no threads), the search loop itself (needs PBKDF2/secp256k1), clap option wiring; these are exercised only by nb_cli_vanity_search with stated bounds. Prefix digit counts other than those listed follow the same loop body but are not machine-checked.',
                native_timeout=2400),
    'C19': dict(level='exploration',
                technique='bounded stand-in only: native exhaustive enumeration against a reference decoder (permissive_hex is outside the reach of both installed verifiers)',
                claim='BOUNDED, not proved: permissive_hex agrees with the reference decoder on all 1.8e7 strings of length <= 6 over a 16-character alphabet (hex digits of both cases, x, ASCII and Unicode whitespace, foreign characters), and decode(encode(b)) == b with canonical lower-case encoding for one byte string of every length 0..=4096 and all two-byte strings, across six whitespace/case/prefix layouts.',
                note='chars().filter(is_whitespace).collect::<String>() + strip_prefix + hex::decode: Verus cannot model str, CBMC did not finish even on 1-character inputs (Unicode tables, String growth). hex::decode_to_slice itself is proved under C15. "No output on error" is checked at process level by nb_cli_malformed_inputs_are_ordinary_errors (C17).',
                native_timeout=2400),
    'C10': dict(level='proof',
                technique='Verus proof of the extracted message::digest against the EIP-191 preimage spec (Keccak uninterpreted) + Kani pairings + native stand-in for the assumed std formatting contract',
                claim='For byte strings of every length the value returned by message::digest is Keccak-256 applied to exactly 0x19 "Ethereum Signed Message:\\n" ++ decimal(len) ++ message (Verus, unbounded; the prefix literal is taken from the source text each run). EthereumMessage::signing_message delegates to it (Kani pairings, lengths 0/1/10 with symbolic content).',
                note='Assumed in the Verus unit: ethdigest::Digest::of computes Keccak-256 of its argument (uninterpreted function); `write!(vec, "{}", n)` appends the decimal digits of n and cannot fail (std; checked natively for every length 0..=1100 and powers of ten up to 10^6, and by Kani with the real std code at lengths 0,1,10); Vec::with_capacity yields an empty vector; slices are at most isize::MAX bytes.'),
    'C15': dict(level='proof',
                technique='Kani/CBMC contracts on the real Signature::from_str / Display over all 130- and 132-character strings and all other lengths <= 140, hex decoder and ethnum LowerHex as cross-checked callee contracts',
                claim='Signature::from_str is proved for every ASCII string of 0..140 characters: accepted iff optional 0x + 130 hex digits with v in {27,28} and r, s in [1, n-1], the parsed (r, s, yParity) being the written values, everything else rejected without panic; Display is proved to print 0x, 64+64 lower-case digits and 1b/1c for every valid signature, so parse(print(s)) == s by composition.',
                note='Callee contracts: hex::decode_to_slice (proved on the real hex crate for all 130-byte inputs in the same run), ethnum U256 LowerHex under {:064x}/{:02x} (assumed: symbolic ethnum formatting exceeds the CBMC budget), k256 from_scalars range check runs for real. Non-ASCII text, and the sign/hash command pipeline (clap, stdout) are not decided here; the `hash transaction --signature` data flow is part of C16. Quick tier uses the modular harnesses; thorough adds the monolithic ones with the real hex decoder inside from_str.'),
    'C01': dict(level='proof',
                technique='Kani/CBMC contracts on the real from_phrase_str / to_phrase / mnemonic_to_byte_length with callee contracts (word lookup, SHA-256, splitting) as recording stubs; native bounded stand-ins close the composition',
                claim='For every word count 0..40 (one complete harness each, all 2048^n index sequences, all lookup verdicts, all hash values) from_phrase_str accepts iff the count is 12/15/18/21/24, every word is in the list and the trailing ENT/32 bits equal the leading hash bits, and then stores exactly the BIP-39 entropy||hash; to_phrase / mnemonic_length are proved for all buffers of the five sizes; a lemma shows the two layouts inverse. The length table is proved for all usize.',
                note='Callee contracts assumed by the proofs and checked only by bounded native stand-ins: Language::split = maximal non-whitespace runs, Wordlist::search/word on the embedded list (exhaustive ground-fact check of the 2048 words; std binary_search trusted), hash_seed = SHA-256 (sha2 dependency). Word counts above 40 are covered through the length-table proof (rejected before the loop).',
                jobs=16),
    'C12': dict(level='proof',
                technique='Kani/CBMC contracts on the real rand::get_entropy and Mnemonic::random with getentropy(3) as a fill-or-fail environment contract',
                claim='For every requested length (19 lengths incl. all of 11..25) Mnemonic::random succeeds iff the length is supported and the OS source succeeds, takes exactly 4n/3 bytes from the source, and every entropy byte of the result is the byte the source returned at that position; get_entropy is proved to pass exactly its slice and map a negative result to an error.',
                note='Assumed: getentropy(3) behaves fill-or-fail (environment contract: fills exactly len bytes and returns 0, or writes nothing, returns -1 and sets errno to ANY error number - so a caller that ignores some failures, e.g. retries EINTR and then gives up silently, is refuted); SHA-256 (callee contract); printing/parsing back is C01. cmd::new::run passing options.length unchanged, "no phrase printed on failure", freshness across invocations and the vanity loop are process/thread level and not decided here (native stand-in nb_random_parses_back only exercises the real OS source 64 times per length).'),
    'C14': dict(level='proof',
                technique='Kani/CBMC contracts on the real Component::from_str / Display over all strings up to 12 bytes (complete for every u32 value); native bounded stand-ins for Path::from_str and Path::for_index',
                claim='Component::from_str is proved for every ASCII string of length 0..12 (hence for the canonical text of all 2^32 values, hardened or not): accepted iff decimal index below 2^31, value and hardened marker preserved, everything else rejected without panic; Component Display proved canonical for all values. Path::from_str / Display / for_index are outside CBMC\'s reach (str::split and format! explode) and are covered by bounded stand-ins only: 12 concrete shapes under Kani and native enumeration of 3.3e6 short strings / 80k indices.',
                note='Proved part: Component parser and printer. Bounded (not proved): Path::from_str splitting, Path Display, Path::for_index (native enumeration with stated bounds). Assumed in the quick tier: std u32 decimal Display for 5-10 digit values (1-4 digits cross-checked in quick, 5-10 in thorough), std memchr specification (stubbed by its naive definition in the path examples). "Derives the same key" depends on C03 (not applicable). Non-ASCII component text is covered by native examples only.',
                native_timeout=1500),
    'C07': dict(level='proof',
                technique='Verus proof of extracted rlp::{len,bytes,uint,list} against the Yellow-Paper spec + Kani/CBMC pairings on the real functions',
                claim='rlp::{len,bytes,uint,list} produce exactly the Yellow-Paper encoding for inputs of every length and value (Verus, unbounded); the canonical-form clauses (minimal length prefix, no wrapped single byte < 0x80, no leading zero in integers, 0 = empty string) are part of that spec; len and uint are additionally proved on the real code for all 2^64 x 2 resp. 2^256 inputs by Kani. rlp::iter and AccessList::rlp_encode are bounded stand-ins.',
                note='Assumed: ethnum U256 / usize leading_zeros and to_be_bytes interface contracts (each cross-checked on the real code by a complete Kani harness in the same run), vstd Vec/slice model, total list payload fits usize, extractor rewrite rules R1-R4/R6. Decoder side: a spec-level strict decoder for string items and integers is defined in the Verus unit and lemmas prove dec_str(enc_str(b) ++ rest) == (b, rest), dec_uint(be_min(v)) == v, injectivity of enc_str, and that minimal big-endian bytes have no leading zero (machine-checked, pure mathematics over the spec); a theorem for FLAT lists (items are strings: every legacy transaction, the key list of an access-list entry) shows that a strict decoder accepts what rlp::list returns, consumes it completely and returns exactly the original byte strings; the same for NESTED lists (induction on nesting: typed transactions with non-empty access lists) is NOT machine-checked and is exercised only by the native strict decoder.',
                explanation='Verus proves rlp::{len,bytes,uint,list} (bodies extracted from /repo each run) equal to the Yellow-Paper encoding for inputs of every length; strict-decoder lemmas are spec-level; Kani pairs give counterexamples and cross-check the assumed usize/U256 interface contracts.',
                trusted=['U256/usize interface contracts assumed in the Verus prelude (cross-checked by xc_* Kani harnesses on the real code)',
                         'sum of item lengths fits usize (true of live allocations)']),
}
