#!/bin/sh
# usage: tools/dev.sh <harness-filter> <relfile>... — inject the harness modules into the dev scratch copy and run the matching harnesses
F=$1; shift
D=${DEV_DIR:-/root/.verif-scratch/dev}
mkdir -p $D
rsync -a --delete --exclude /target --exclude /.git ${DEV_SRC:-/repo}/ $D/repo/
mkdir -p $D/repo/.cargo
printf '[net]\noffline = true\n[patch.crates-io]\nethnum = { path = "/verif/vendor/ethnum-kani" }\nanyhow = { path = "/verif/vendor/anyhow-kani" }\n' > $D/repo/.cargo/config.toml
for rel in "$@"; do
  printf '\n\n' >> $D/repo/$rel
  cat /verif/contracts/kani/$rel >> $D/repo/$rel
done
cd $D/repo
rm -f $D/dev.json
CARGO_NET_OFFLINE=true timeout ${DEV_TIMEOUT:-1800} cargo kani -Z function-contracts -Z stubbing -Z unstable-options --output-format terse -j ${DEV_JOBS:-16} --harness-timeout ${DEV_HT:-900}s --export-json $D/dev.json $(echo "$F" | tr "," "\n" | sed "s/^/--harness /") > $D/dev.out 2>&1
grep -E "^error|^\s+-->|Failed Checks|File:|unwinding|VERIFICATION:|Stub:|Complete -|failed for|^Thread [0-9]+: Checking|Verification Time" $D/dev.out | grep -v "register_tool" | head -${DEV_LINES:-80}
python3 - <<PY
import json,os
p='$D/dev.json'
if os.path.exists(p):
    d=json.load(open(p))
    for r in d['verification_results']['results']:
        bad=[c for c in r['checks'] if c['status'] not in ('Success','SUCCESS','Unreachable','UNREACHABLE','Satisfied','SATISFIED')]
        print(r['harness_id'].split('::')[-1], r['status'], r['duration_ms']/1000, 'checks',len(r['checks']), 'bad',len(bad))
        for c in bad[:6]: print('    ',c['status'],c['description'][:100],'@',c['function'][:60],c['location'].get('file','')[-40:],c['location'].get('line'))
PY
