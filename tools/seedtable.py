#!/usr/bin/env python3
"""Builds the DESIGN.md section 9 table and seeded/<id>/detection.json from /root/.verif-scratch/seedrun.log"""
import json, re, os, sys
rows = {}
for ln in open('/root/.verif-scratch/seedrun.log'):
    m = re.match(r'seed=(\S+) check=(\S+) rc=(\d+) wall=(\d+)s :: (.*)', ln)
    if not m:
        continue
    seed, check, rc, wall, rest = m.groups()
    obs = re.findall(r'VIOLATION property=\S+ replay=/verif/replays/\S+?-((?:kani|native|verus)_[A-Za-z0-9_]+?)-[0-9a-f]{10}\.json( no-failing-input-found)?', rest)
    rows.setdefault(seed, []).append(dict(check=check, rc=int(rc), wall_s=int(wall), obligations=[o[0] + (' (no-failing-input-found)' if o[1] else ' (replayed on real code)') for o in obs]))
out = []
for seed in sorted(rows):
    base = seed.split('(')[0]
    mp = f'/verif/seeded/{base}/meta.json'
    meta = json.load(open(mp)) if os.path.exists(mp) else {}
    for r in rows[seed]:
        verdict = 'caught' if r['rc'] == 1 else ('MISSED (exit %d)' % r['rc'])
        out.append(f"| {seed} | {meta.get('breaks','')} | {meta.get('change','')[:140]} | ./check {r['check']} ({r['wall_s']} s) | {verdict} | {'; '.join(r['obligations'][:3]) or '—'} |")
    if '(' not in seed and os.path.isdir(f'/verif/seeded/{base}'):
        json.dump(dict(seed=base, runs=rows[seed]), open(f'/verif/seeded/{base}/detection.json', 'w'), indent=1)
print('| seed | breaks | change | check run (wall) | outcome | refuted obligations |')
print('|---|---|---|---|---|---|')
print('\n'.join(out))
