#!/usr/bin/env python3
"""Driver for /verif/check: runs the Verus and Kani legs for one property against
/repo's current working tree, classifies every obligation, replays refutations
on the real code, applies known_findings.json, writes evidence, and exits
0 (held) / 1 (VIOLATION) / 2 (undecided / infrastructure, never an alarm)."""
import argparse
import concurrent.futures
import hashlib
import json
import os
import re
import shutil
import subprocess
import sys
import time

ROOT = os.path.dirname(os.path.dirname(os.path.abspath(__file__)))
sys.path.insert(0, os.path.join(ROOT, 'contracts'))
sys.path.insert(0, os.path.join(ROOT, 'tools'))
import extract  # noqa: E402
import registry  # noqa: E402

REPO = os.environ.get('VERIF_REPO', '/repo')
SCRATCH_BASE = os.environ.get('VERIF_SCRATCH', '/root/.verif-scratch')
NPROC = os.cpu_count() or 8

ENV = dict(os.environ)
ENV.update(CARGO_NET_OFFLINE='true', CARGO_TERM_COLOR='never')
ENV.pop('RUSTFLAGS', None)


def log(*a):
    print(*a, file=sys.stderr, flush=True)


def run(cmd, cwd=None, timeout=None, env=None):
    t0 = time.time()
    try:
        p = subprocess.run(cmd, cwd=cwd, env=env or ENV, stdout=subprocess.PIPE, stderr=subprocess.PIPE,
                           timeout=timeout, text=True, errors='replace')
        return p.returncode, p.stdout, p.stderr, time.time() - t0
    except subprocess.TimeoutExpired as e:
        out = e.stdout.decode(errors='replace') if isinstance(e.stdout, bytes) else (e.stdout or '')
        err = e.stderr.decode(errors='replace') if isinstance(e.stderr, bytes) else (e.stderr or '')
        return 124, out, err, time.time() - t0


# ---------------------------------------------------------------------------
# scratch copy of /repo's working tree

class Scratch:
    def __init__(self, tag):
        self.dir = os.path.join(SCRATCH_BASE, f'{tag}-{os.getpid()}')
        self.repo = os.path.join(self.dir, 'repo')

    def __enter__(self):
        shutil.rmtree(self.dir, ignore_errors=True)
        os.makedirs(self.dir)
        rc, out, err, _ = run(['rsync', '-a', '--exclude', '/target', '--exclude', '/.git', REPO + '/', self.repo + '/'])
        if rc != 0:
            raise RuntimeError('rsync failed: ' + err)
        return self

    def __exit__(self, *a):
        if not os.environ.get('VERIF_KEEP'):
            shutil.rmtree(self.dir, ignore_errors=True)
        else:
            log('kept scratch', self.dir)


def tree_hash(repo):
    h = hashlib.sha256()
    for base, dirs, files in os.walk(repo):
        dirs[:] = sorted(d for d in dirs if d not in ('target', '.git'))
        for f in sorted(files):
            p = os.path.join(base, f)
            h.update(os.path.relpath(p, repo).encode())
            try:
                h.update(open(p, 'rb').read())
            except OSError:
                pass
    return h.hexdigest()


# ---------------------------------------------------------------------------
# Verus leg

VERUS_REFUTATION = re.compile(
    r'postcondition not satisfied|precondition not satisfied|invariant not satisfied|assertion failed|'
    r'possible arithmetic (under|over)flow|possible division by zero|index out of bounds|'
    r'possible bit shift (under|over)flow|decreases not satisfied|might not be allowed|recommendation not met|'
    r'could not prove termination|slice index|value may be out of range')
VERUS_RESOURCE = re.compile(r'[Rr]esource limit|rlimit|timed? ?out|canceled')


def fn_ranges(text):
    """line ranges of extracted functions in a generated unit: {verified_name: (first,last)}"""
    out = {}
    lines = text.split('\n')
    i = 0
    while i < len(lines):
        if lines[i].startswith('// ---- extracted from /repo/'):
            target = lines[i][len('// ---- extracted from /repo/'):].rstrip(' -')
            # function text runs until the next line that is exactly '}' at column 0
            j = i + 1
            name = None
            m = re.search(r'\bfn\s+(\w+)', lines[j])
            if m:
                name = m.group(1)
            while j < len(lines) and lines[j] != '}':
                j += 1
            out[name] = dict(target=target, first=i + 2, last=j + 1)
            i = j
        i += 1
    return out


def run_verus_file(path, rlimit, timeout):
    cmd = ['verus', os.path.basename(path), '--output-json', '--time', '--error-format=json', '--rlimit', str(rlimit),
           '--multiple-errors', '5']
    rc, out, err, wall = run(cmd, cwd=os.path.dirname(path), timeout=timeout)
    res = dict(rc=rc, wall_s=round(wall, 2), cmd=' '.join(cmd), diagnostics=[], json=None, raw_err_tail=err[-4000:])
    try:
        res['json'] = json.loads(out)
    except Exception:
        pass
    for ln in err.split('\n'):
        ln = ln.strip()
        if ln.startswith('{'):
            try:
                d = json.loads(ln)
            except Exception:
                continue
            if d.get('level') in ('error', 'error: internal compiler error'):
                prim = [s for s in d.get('spans', []) if s.get('is_primary')] or d.get('spans', [])
                res['diagnostics'].append(dict(message=d.get('message', ''), lines=[s['line_start'] for s in d.get('spans', [])],
                                               primary_line=prim[0]['line_start'] if prim else None,
                                               rendered=d.get('rendered', '')[:1500]))
    return res


def verus_unit(unit, workdir, tier):
    """Extract, verify, run per-function canaries. Returns a result dict."""
    template = os.path.join(ROOT, unit['template'])
    r = dict(unit=unit['name'], template=unit['template'], status='ok', functions=[], obligations=[], refuted=[],
             undecided=[], canaries=[], assumptions=[], solver_s=0.0, wall_s=0.0)
    t0 = time.time()
    os.makedirs(workdir, exist_ok=True)
    try:
        text, elog = extract.generate(template, REPO)
    except extract.LostAnchor as e:
        r['status'] = 'undecided'
        r['undecided'].append(dict(obligation=f"verus:{unit['name']}:extract", reason=f'lost anchor: {e}'))
        return r
    except Exception as e:  # source no longer lexes etc.
        r['status'] = 'undecided'
        r['undecided'].append(dict(obligation=f"verus:{unit['name']}:extract", reason=f'extractor error: {e!r}'))
        return r
    path = os.path.join(workdir, f"{unit['name']}.rs")
    open(path, 'w').write(text)
    r['functions'] = elog
    r['generated_sha256'] = hashlib.sha256(text.encode()).hexdigest()
    ranges = fn_ranges(text)
    # assumption scan
    for i, ln in enumerate(text.split('\n'), 1):
        s = ln.strip()
        if s.startswith('//'):
            continue
        if re.search(r'\badmit\s*\(|\bassume\s*\(\s*false', s):
            r['status'] = 'undecided'
            r['undecided'].append(dict(obligation=f"verus:{unit['name']}:hygiene", reason=f'admit/assume(false) at line {i}'))
        m = re.search(r'external_body|assume_specification|\buninterp\b|\bassume\s*\(|external_fn_specification|#\[verifier::external\b', s)
        if m:
            r['assumptions'].append(f"verus unit {unit['name']} line {i}: {s[:140]}")
    res = run_verus_file(path, unit.get('rlimit', 30), unit.get('timeout', 600))
    r['checker_cmd'] = res['cmd']
    j = res['json']
    breakdown = []
    if j and 'times-ms' in j:
        for m in j['times-ms'].get('smt', {}).get('smt-run-module-times', []):
            breakdown += m.get('function-breakdown', [])
        r['solver_s'] += j['times-ms'].get('smt', {}).get('total', 0) / 1000.0
    vr = (j or {}).get('verification-results', {})
    r['verus_summary'] = vr
    extracted_names = {n for n in ranges}
    if vr.get('success'):
        for f in breakdown:
            nm = f['function'].split('::')[-1]
            kind = 'extracted-exec' if nm in extracted_names else f.get('mode:', '?')
            r['obligations'].append(dict(id=f"verus:{unit['name']}:{nm}", kind=kind, status='discharged',
                                         time_ms=f.get('time'), rlimit=f.get('rlimit')))
        if vr.get('verified', 0) == 0:
            r['status'] = 'undecided'
            r['undecided'].append(dict(obligation=f"verus:{unit['name']}", reason='zero obligations verified (vacuous unit)'))
    else:
        # classify diagnostics
        if not res['diagnostics'] and not vr:
            r['status'] = 'undecided'
            r['undecided'].append(dict(obligation=f"verus:{unit['name']}", reason='verus produced no result (rc=%s): %s' % (res['rc'], res['raw_err_tail'][-800:])))
        for d in res['diagnostics']:
            if d['message'].startswith('aborting due to'):
                continue
            owner = None
            for nm, rg in ranges.items():
                if any(rg['first'] <= l <= rg['last'] for l in d['lines']):
                    owner = nm
                    break
            msg = d['message']
            if owner and VERUS_REFUTATION.search(msg) and not VERUS_RESOURCE.search(msg):
                r['refuted'].append(dict(obligation=f"verus:{unit['name']}:{owner}", function=ranges[owner]['target'],
                                         check=msg, detail=d['rendered'], engine='verus'))
            else:
                r['undecided'].append(dict(obligation=f"verus:{unit['name']}:{owner or 'prelude'}",
                                           reason=f'{msg} | ' + d['rendered'][:600]))
        if r['refuted']:
            r['status'] = 'refuted'
        elif r['undecided']:
            r['status'] = 'undecided'
        else:
            r['status'] = 'undecided'
            r['undecided'].append(dict(obligation=f"verus:{unit['name']}", reason='verus failed without classified diagnostics: ' + res['raw_err_tail'][-800:]))
        # successful functions still count as discharged
        for f in breakdown:
            if f.get('success'):
                nm = f['function'].split('::')[-1]
                r['obligations'].append(dict(id=f"verus:{unit['name']}:{nm}", kind='extracted-exec' if nm in extracted_names else f.get('mode:', '?'),
                                             status='discharged', time_ms=f.get('time'), rlimit=f.get('rlimit')))
    # canaries: each extracted function additionally `ensures false` must FAIL (vacuity guard)
    if r['status'] == 'ok':
        def canary(nm):
            ctext, _ = extract.generate(template, REPO, canary_fn=ranges[nm]['target'])
            cdir = os.path.join(workdir, f"canary-{unit['name']}-{nm}")
            os.makedirs(cdir, exist_ok=True)
            cpath = os.path.join(cdir, f"{unit['name']}_canary.rs")
            open(cpath, 'w').write(ctext)
            cres = run_verus_file(cpath, unit.get('rlimit', 30), unit.get('timeout', 600))
            failed_false = any('postcondition not satisfied' in d['message'] for d in cres['diagnostics'])
            return dict(function=nm, ensures_false_rejected=failed_false, wall_s=cres['wall_s'])
        with concurrent.futures.ThreadPoolExecutor(max_workers=min(8, max(1, len(ranges)))) as ex:
            r['canaries'] = list(ex.map(canary, list(ranges)))
        for c in r['canaries']:
            if not c['ensures_false_rejected']:
                r['status'] = 'undecided'
                r['undecided'].append(dict(obligation=f"verus:{unit['name']}:{c['function']}:canary",
                                           reason='`ensures false` verified: contradictory precondition or assumed contract (vacuous)'))
    r['wall_s'] = round(time.time() - t0, 2)
    return r


# ---------------------------------------------------------------------------
# Kani leg

KANI_COMMON_FLAGS = ['-Z', 'function-contracts', '-Z', 'stubbing', '-Z', 'unstable-options']

UNDECIDED_DESCR = re.compile(
    r'unwinding assertion|recursion unwinding|is not currently supported by Kani|unsupported construct|'
    r'pointer to unallocated|foreign function|caller_location|Kani does not support|'
    r'reachable code with unsupported|dead object|deallocated dynamic object|concurrency')


def inject_kani_modules(scratch_repo, files):
    injected = []
    files = set(files)
    for f in list(files):
        files |= set(registry.FILE_DEPS.get(f, []))
    for rel in sorted(files):
        src = os.path.join(ROOT, 'contracts', 'kani', rel)
        dst = os.path.join(scratch_repo, rel)
        if not os.path.exists(dst):
            return None, f'target file {rel} no longer exists in /repo'
        body = open(src).read()
        with open(dst, 'a') as f:
            f.write('\n\n// ==== appended by /verif/check (scratch copy only) ====\n')
            f.write(body)
        injected.append(rel)
    # shared helper module, visible to both crates as a plain file included by path
    os.makedirs(os.path.join(scratch_repo, '.cargo'), exist_ok=True)
    with open(os.path.join(scratch_repo, '.cargo', 'config.toml'), 'w') as f:
        f.write('[net]\noffline = true\n[patch.crates-io]\nethnum = { path = "%s" }\nanyhow = { path = "%s" }\n' % (os.path.join(ROOT, 'vendor', 'ethnum-kani'), os.path.join(ROOT, 'vendor', 'anyhow-kani')))
    return injected, None


def harness_path(h):
    """fully qualified harness name: module path of the source file + verif_kani + fn name"""
    rel = h['file'][len('src/'):-len('.rs')]
    parts = [x for x in rel.split('/') if x not in ('lib', 'main', 'mod')]
    return '::'.join(parts + [h.get('module', 'verif_kani'), h['name']])


def kani_run(scratch_repo, harnesses, jobs, timeout_total, per_harness_timeout, extra_flags=()):
    """Run cargo kani for the given harness names (exact pretty names are matched by substring filter)."""
    out_json = os.path.join(os.path.dirname(scratch_repo), f'kani-{int(time.time() * 1000)}.json')
    cmd = ['cargo', 'kani'] + KANI_COMMON_FLAGS + ['--output-format', 'terse', '-j', str(jobs),
                                                    '--harness-timeout', f'{per_harness_timeout}s',
                                                    '--export-json', out_json]
    cmd += list(extra_flags)
    cmd.append('--exact')
    for h in harnesses:
        cmd += ['--harness', h]
    rc, out, err, wall = run(['timeout', '-k', '10', str(timeout_total)] + cmd, cwd=scratch_repo)
    data = None
    if os.path.exists(out_json):
        try:
            data = json.load(open(out_json))
        except Exception:
            data = None
    return dict(rc=rc, stdout=out, stderr=err, wall_s=wall, json=data, cmd=' '.join(cmd))


def classify_kani(data, stdout, wanted):
    """-> {harness_short_name: dict(status, checks_total, checks_ok, failed:[...], undecided:[...], covers, time_s)}"""
    res = {}
    if not data:
        return res
    by_id = {}
    for r in data.get('verification_results', {}).get('results', []):
        by_id[r['harness_id']] = r
    stats = {c['harness_id']: c for c in data.get('cbmc', [])}
    pdet = {c['harness_id']: c.get('property_details', {}) for c in data.get('property_details', [])}
    edet = {c['harness_id']: c for c in data.get('error_details', [])}
    for hid, r in by_id.items():
        short = hid.split('::')[-1]
        failed, undec = [], []
        total = ok = covers_total = covers_sat = 0
        for c in r.get('checks', []):
            st = c.get('status', '')
            desc = c.get('description', '')
            cat = c.get('category', '')
            loc = c.get('location', {}) or {}
            item = dict(description=desc, category=cat, function=c.get('function', ''),
                        file=loc.get('file', ''), line=loc.get('line', ''), status=st)
            if cat == 'cover' or desc.startswith('cover condition'):
                covers_total += 1
                if st in ('Satisfied', 'SATISFIED'):
                    covers_sat += 1
                else:
                    undec.append(dict(item, reason='cover not satisfied (vacuous harness?)'))
                continue
            total += 1
            if st in ('Success', 'SUCCESS', 'Unreachable', 'UNREACHABLE'):
                ok += 1
            elif st in ('Failure', 'FAILURE'):
                if UNDECIDED_DESCR.search(desc) or cat in ('unwind', 'unsupported_construct', 'unsupported'):
                    undec.append(dict(item, reason='tool limitation / unwinding'))
                else:
                    failed.append(item)
            else:
                undec.append(dict(item, reason=f'status {st}'))
        status = r.get('status', '')
        e = edet.get(hid, {})
        if status not in ('Success', 'Failure', 'Failed') and not r.get('checks'):
            undec.append(dict(description=f'harness status {status}', reason=json.dumps(e)[:300]))
        if total == 0 and not undec:
            undec.append(dict(description='no checks reported', reason=json.dumps(e)[:300]))
        # if the harness failed only because of undetermined checks after an unwinding failure, Kani marks
        # other checks UNDETERMINED: they are in undec already.
        st_solver = (stats.get(hid) or {}).get('cbmc_stats') or {}
        res[short] = dict(harness_id=hid, status=('refuted' if failed else ('undecided' if undec else 'discharged')),
                          checks_total=total, checks_ok=ok, failed=failed, undecided=undec,
                          covers_total=covers_total, covers_satisfied=covers_sat,
                          time_s=round(r.get('duration_ms', 0) / 1000.0, 2),
                          solver_s=round((st_solver.get('runtime_decision_procedure_s') or 0.0) + (st_solver.get('runtime_symex_s') or 0.0), 3),
                          vccs=st_solver.get('vccs_generated') or 0, vccs_remaining=st_solver.get('vccs_remaining') or 0,
                          kani_exit=e.get('exit_status'))
    return res


def kani_playback(scratch_repo, harness, timeout):
    """Re-run one failing harness with concrete playback; returns list of (check, [byte vectors])."""
    cmd = ['cargo', 'kani'] + KANI_COMMON_FLAGS + ['-Z', 'concrete-playback', '--concrete-playback=print',
                                                    '--output-format', 'terse', '--harness', harness, '--exact']
    rc, out, err, wall = run(['timeout', '-k', '10', str(timeout)] + cmd, cwd=scratch_repo)
    tests = []
    for m in re.finditer(r'/// Check for `(\w+)`: "(.*?)"\s*\n(?:\s*///[^\n]*\n|\s*\n)*\s*#\[test\]\s*\nfn (\w+)\(\) \{\s*let concrete_vals: Vec<Vec<u8>> = vec!\[(.*?)\n\s*\];', out, flags=re.S):
        kind, msg, name, body = m.groups()
        vals = []
        for vm in re.finditer(r'vec!\[([0-9, ]*)\]', body):
            s = vm.group(1).strip()
            vals.append([int(x) for x in s.split(',') if x.strip()] if s else [])
        tests.append(dict(kind=kind, check=msg, values=vals))
    return tests, out[-3000:]


# ---------------------------------------------------------------------------
# native replay through the kani shim (real code, repo's own toolchain)

SHIM = open(os.path.join(ROOT, 'contracts', 'replay', 'kani_shim.rs')).read() if os.path.exists(os.path.join(ROOT, 'contracts', 'replay', 'kani_shim.rs')) else ''


def nativize(module_text, harness, values):
    """Turn a `#[cfg(kani)] [pub(crate)] mod verif_kani { … }` module into a native test module: kani attributes
    are erased (so every stub is OFF and the real callees run), `kani::` resolves to the shim, and (if harness
    is given) one #[test] feeds the verifier's concrete values to the harness."""
    # a harness file may hold several top-level `#[cfg(kani)] mod …` items: each one is nativized on its own
    chunks = re.split(r'(?=#\[cfg\(kani\)\])', module_text)
    out = []
    for t in chunks:
        if not t.startswith('#[cfg(kani)]'):
            out.append(t)
            continue
        t = t.replace('#[cfg(kani)]', '#[cfg(test)]\n#[allow(warnings)]', 1)
        t = re.sub(r'^\s*#\[kani::[^\n]*\]\s*\n', '', t, flags=re.M)
        t = re.sub(r'#\[cfg_attr\(kani,[^\n]*\)\]\s*\n', '', t)
        idx = t.rfind('}')
        test = ''
        if harness and re.search(r'\b' + re.escape(harness) + r'\b', t):
            vals = ', '.join('vec![' + ', '.join(str(b) for b in v) + ']' for v in values)
            test = f'''
    #[test]
    fn verif_replay_entry() {{
        kani::load(vec![{vals}]);
        let r = std::panic::catch_unwind(|| {{ {harness}(); }});
        match r {{
            Ok(()) => println!("VERIF-REPLAY: PASSED (no failure reproduced natively)"),
            Err(e) => {{
                let msg = if let Some(s) = e.downcast_ref::<String>() {{ s.clone() }} else if let Some(s) = e.downcast_ref::<&str>() {{ s.to_string() }} else {{ "<non-string panic>".to_string() }};
                if msg.contains("VERIF-ASSUME-VIOLATED") {{ println!("VERIF-REPLAY: ASSUME-VIOLATED {{}}", msg); }}
                else {{ println!("VERIF-REPLAY: FAILED {{}}", msg); }}
            }}
        }}
    }}
'''
        t = t[:idx] + '\n    pub(crate) mod kani {\n' + SHIM + '\n    }\n' + test + t[idx:]
        out.append(t)
    return ''.join(out)


def native_replay(rel, harness, values, bin_crate, timeout=900):
    """Build a fresh scratch copy with the nativized module appended to `rel` (and the nativized helper modules
    it depends on), run the test in debug and release."""
    results = {}
    with Scratch('replay') as sc:
        files = [rel] + list(registry.FILE_DEPS.get(rel, [])) + (['src/main.rs'] if bin_crate else ['src/lib.rs'])
        for f in dict.fromkeys(files):
            dst = os.path.join(sc.repo, f)
            src = os.path.join(ROOT, 'contracts', 'kani', f)
            if not os.path.exists(dst) or not os.path.exists(src):
                return dict(error=f'{f} missing')
            with open(dst, 'a') as fh:
                fh.write('\n\n' + nativize(open(src).read(), harness if f == rel else None, values))
        for profile in ('debug', 'release'):
            cmd = ['cargo', 'test', '--offline']
            if profile == 'release':
                cmd.append('--release')
            cmd += ['--bin', 'hdwallet'] if bin_crate else ['--lib']
            cmd += ['verif_replay_entry', '--', '--nocapture', '--test-threads', '1']
            rc, out, err, wall = run(['timeout', '-k', '10', str(timeout)] + cmd, cwd=sc.repo)
            m = re.search(r'VERIF-REPLAY: (\w[\w-]*)(.*)', out)
            if m:
                results[profile] = dict(outcome=m.group(1), detail=m.group(2).strip()[:600])
            else:
                results[profile] = dict(outcome='BUILD-OR-RUN-ERROR', detail=(err[-1200:] + out[-400:]))
    return results


# ---------------------------------------------------------------------------
# native bounded stand-ins (labelled bounded, never counted as proved): #[cfg(test)] modules from
# contracts/native/<path> appended to the scratch copy and run with the repo's own toolchain

def inject_native_modules(scratch_repo, files):
    for rel in sorted(files):
        src = os.path.join(ROOT, 'contracts', 'native', rel)
        dst = os.path.join(scratch_repo, rel)
        if rel.startswith('tests/'):
            os.makedirs(os.path.dirname(dst), exist_ok=True)
            shutil.copy(src, dst)
            continue
        if not os.path.exists(dst):
            return f'target file {rel} no longer exists in /repo'
        with open(dst, 'a') as f:
            f.write('\n\n// ==== appended by /verif/check (scratch copy only, native bounded stand-ins) ====\n')
            f.write(open(src).read())
    return None


def native_run(scratch_repo, tests, timeout):
    """tests: registry.NATIVE entries. Returns {name: dict(status, message, cases, time_s)}."""
    out = {}
    env = dict(ENV)
    env['RUST_BACKTRACE'] = '0'
    groups = {}
    for t in tests:
        if t['file'].startswith('tests/'):
            g = ('test', os.path.basename(t['file'])[:-3])
        else:
            g = ('bin', 'hdwallet') if t.get('bin') else ('lib', '')
        groups.setdefault(g, []).append(t)
    for (kind, name), sel in groups.items():
        target = {'lib': ['--lib'], 'bin': ['--bin', 'hdwallet'], 'test': ['--test', name]}[kind]
        filt = ['verif_native'] if kind != 'test' else []
        cmd = ['cargo', 'test', '--offline', '--release'] + target + filt + ['--', '--test-threads', str(NPROC), '--show-output']
        rc, so, se, wall = run(['timeout', '-k', '10', str(timeout)] + cmd, cwd=scratch_repo, env=env)
        hang = re.search(r'^VERIF-NATIVE-HANG (\S+) (.*)$', so, flags=re.M)
        for t in sel:
            if hang and hang.group(1).endswith(t['name']):
                # reported by the watchdog inside the native test module: a concrete input on which the code under test did not return
                out[t['name']] = dict(status='refuted', message='HANG: ' + hang.group(2)[:3000], cases=0, nontrivial=0, samples=[], time_s=round(wall, 1), cmd=' '.join(cmd), test=hang.group(1))
                continue
            m = re.search(r'^test (\S*?' + re.escape(t['name']) + r') \.\.\. (\w+)', so, flags=re.M)
            if not m:
                out[t['name']] = dict(status='undecided', message='native test did not run (rc=%s): %s' % (rc, (se[-1500:] + so[-500:])), cases=0, time_s=wall, cmd=' '.join(cmd))
                continue
            full, verdict = m.group(1), m.group(2)
            cases = 0
            cm = re.search(r'VERIF-NATIVE-CASES ' + re.escape(t['name']) + r' (\d+)(?: nontrivial (\d+))?', so)
            nontrivial = 1
            if cm:
                cases = int(cm.group(1))
                if cm.group(2):
                    nontrivial = int(cm.group(2))
            msg = ''
            if verdict != 'ok':
                sm = re.search(r'---- ' + re.escape(full) + r' stdout ----\n(.*?)(?=\n---- |\nfailures:|\Z)', so, flags=re.S)
                msg = (sm.group(1) if sm else so[-1500:])[:3000]
            samples = [m2.group(1)[:400] for m2 in re.finditer(r'VERIF-NATIVE-SAMPLE ' + re.escape(t['name']) + r' (.*)', so)][:4]
            status = 'discharged' if verdict == 'ok' else 'refuted'
            if rc in (124, 137) and status == 'discharged':
                # the test process was stopped by the time limit: some test in it did not finish, so nothing in it counts as a pass
                status, msg = 'undecided', 'the native test process ran into its time limit (%s s); this test had passed, another one did not finish' % timeout
            out[t['name']] = dict(status=status, message=msg, cases=cases, nontrivial=nontrivial, samples=samples, time_s=round(wall, 1), cmd=' '.join(cmd), test=full)
    return out



def load_known():
    p = os.path.join(ROOT, 'known_findings.json')
    if not os.path.exists(p):
        return []
    return json.load(open(p)).get('findings', [])


def match_known(known, prop, obligation, check_text):
    for k in known:
        if k.get('property') != prop:
            continue
        if not str(k.get('status', '')).startswith('open'):
            continue
        if not re.search(k['obligation'], obligation):
            continue
        if k.get('check') and not re.search(k['check'], check_text):
            continue
        return k
    return None


def main():
    ap = argparse.ArgumentParser()
    ap.add_argument('prop')
    ap.add_argument('--tier', default=os.environ.get('VERIF_TIER', 'quick'), choices=['quick', 'thorough'])
    ap.add_argument('--replay')
    ap.add_argument('--only', help='regex: restrict to harness/unit names (debugging; evidence is not written)')
    ap.add_argument('--no-replay', action='store_true')
    a = ap.parse_args()
    prop = a.prop.upper()
    seed = int(os.environ.get('VERIF_SEED', '0') or 0)
    t_start = time.time()

    if prop not in registry.PROPS:
        log(f'{prop}: not claimed (see MANIFEST.json not_applicable)')
        sys.exit(2)
    if a.replay:
        sys.exit(replay_file(a.replay))

    pinfo = registry.PROPS[prop]
    tiers = ('quick',) if a.tier == 'quick' else ('quick', 'thorough')
    harnesses = [h for h in registry.KANI if prop in h['props'] and h['props'][prop] in tiers]
    units = [u for u in registry.VERUS if prop in u['props'] and u['props'][prop] in tiers]
    natives = [t for t in registry.NATIVE if prop in t['props'] and t['props'][prop] in tiers]
    if a.only:
        harnesses = [h for h in harnesses if re.search(a.only, h['name'])]
        units = [u for u in units if re.search(a.only, u['name'])]
        natives = [t for t in natives if re.search(a.only, t['name'])]

    known = load_known()
    undecided, refuted, discharged = [], [], []
    assumptions = list(pinfo.get('assumptions', []))
    verus_results, kani_results = [], {}
    functions_under_contract = []
    checker_cmds = []
    solver_s = 0.0

    with Scratch(prop) as sc:
        repo_hash = tree_hash(sc.repo)
        # ---- Verus ----
        for u in units:
            r = verus_unit(u, os.path.join(sc.dir, 'verus'), a.tier)
            verus_results.append(r)
            solver_s += r.get('solver_s', 0)
            if r.get('checker_cmd'):
                checker_cmds.append(r['checker_cmd'])
            assumptions += r['assumptions']
            for f in r['functions']:
                functions_under_contract.append(dict(engine='verus', file=f['file'], function=f['function'], lines=f['lines'],
                                                     sha256=f['sha256'], rewrites=f['rewrites'], unit=u['name']))
            for o in r['obligations']:
                discharged.append(dict(id=o['id'], engine='verus', kind=o['kind'], complete=True))
            for x in r['refuted']:
                refuted.append(dict(x, complete=True, unit=u['name'], pair=u.get('pairs', {}).get(x['obligation'].split(':')[-1])))
            for x in r['undecided']:
                undecided.append(dict(x, engine='verus'))
        # ---- Kani ----
        if harnesses:
            files = sorted({h['file'] for h in harnesses} | {'src/lib.rs'} | ({'src/main.rs'} if any(h.get('bin') for h in harnesses) else set()))
            inj, errmsg = inject_kani_modules(sc.repo, files)
            if inj is None:
                undecided.append(dict(obligation='kani:inject', reason=errmsg, engine='kani'))
            else:
                names = [harness_path(h) for h in harnesses]
                per_to = max(h.get('timeout', 600) for h in harnesses)
                total_to = pinfo.get('kani_total_timeout', {}).get(a.tier, 3000)
                jobs = min(NPROC, pinfo.get('jobs', NPROC))
                kr = kani_run(sc.repo, names, jobs, total_to, per_to)
                log(f'  kani leg: {kr["wall_s"]:.0f}s for {len(names)} harnesses')
                checker_cmds.append(kr['cmd'])
                cls = classify_kani(kr['json'], kr['stdout'], names)
                kani_results = cls
                if kr['json'] is None:
                    tail = (kr['stderr'][-2500:] + '\n' + kr['stdout'][-1500:])
                    reason = 'cargo kani produced no result file (compile error in harness module against the current tree, or timeout rc=%s)' % kr['rc']
                    undecided.append(dict(obligation='kani:build', reason=reason + ': ' + tail, engine='kani'))
                for h in harnesses:
                    c = cls.get(h['name'])
                    fn_entry = dict(engine='kani', file=h['file'], function=h['fn'], harness=h['name'],
                                    complete=h['complete'], bound=h.get('bound', ''))
                    functions_under_contract.append(fn_entry)
                    oid = f"kani:{h['name']}"
                    if c is None:
                        if kr['json'] is not None:
                            undecided.append(dict(obligation=oid, reason='harness produced no result (timeout / out of memory / not found)', engine='kani'))
                        continue
                    solver_s += c['solver_s']
                    if c['status'] == 'discharged':
                        discharged.append(dict(id=oid, engine='kani', complete=h['complete'], bound=h.get('bound', ''),
                                               checks=c['checks_total'], covers=c['covers_satisfied'], time_s=c['time_s'],
                                               contract=h['obligation']))
                    elif c['status'] == 'refuted':
                        for f in c['failed']:
                            check_text = f"{f['description']} @ {f['function']} {os.path.basename(f['file'])}:{f['line']}"
                            refuted.append(dict(obligation=oid, function=h['fn'], check=check_text, engine='kani',
                                                complete=h['complete'], harness=h['name'], harness_id=c['harness_id'], file=h['file'],
                                                replay=h.get('replay', 'shim'), bin=h.get('bin', False), contract=h['obligation']))
                        for uu in c['undecided']:
                            pass  # checks undetermined after a failure are expected
                    else:
                        for uu in c['undecided'][:5]:
                            undecided.append(dict(obligation=oid, engine='kani',
                                                  reason=f"{uu.get('reason', '')}: {uu.get('description', '')} @ {uu.get('function', '')} {uu.get('file', '')}:{uu.get('line', '')}"))
                # assumption scan of harness modules
                for rel in files:
                    txt = open(os.path.join(ROOT, 'contracts', 'kani', rel)).read()
                    n_assume = len(re.findall(r'kani::assume', txt))
                    stubs = sorted(set(re.findall(r'#\[kani::stub\(([^)]*)\)\]', txt)))
                    n_unsafe = len(re.findall(r'\bunsafe\b', txt))
                    assumptions.append(f'kani module {rel}: {n_assume} kani::assume (input preconditions / stub postconditions), '
                                       f'{n_unsafe} unsafe, stubs: {stubs}')

        # ---- native bounded stand-ins ----
        native_results = {}
        if natives:
            errmsg = inject_native_modules(sc.repo, {t['file'] for t in natives})
            if errmsg:
                undecided.append(dict(obligation='native:inject', reason=errmsg, engine='native'))
            else:
                _t = time.time()
                native_results = native_run(sc.repo, natives, pinfo.get('native_timeout', 1500))
                log(f'  native leg: {time.time() - _t:.0f}s for {len(natives)} tests')
                for t in natives:
                    r = native_results.get(t['name'])
                    oid = f"native:{t['name']}"
                    functions_under_contract.append(dict(engine='native-bounded', file=t['file'], function=t['fn'], harness=t['name'], complete=False, bound=t['bound']))
                    if r['status'] == 'discharged':
                        discharged.append(dict(id=oid, engine='native', complete=False, bound=t['bound'], checks=max(1, r['cases']), covers=1, nontrivial=r.get('nontrivial', 1), samples=r.get('samples', []),
                                               time_s=r['time_s'], contract=t['obligation']))
                        if r.get('cmd') and r['cmd'] not in checker_cmds:
                            checker_cmds.append(r['cmd'])
                    elif r['status'] == 'refuted':
                        refuted.append(dict(obligation=oid, function=t['fn'], check=r['message'].strip().split('\n')[0][:300] if r['message'].strip() else 'native test failed',
                                            detail=r['message'], engine='native', complete=False, harness=t['name'], file=t['file'], contract=t['obligation'],
                                            native_test=r.get('test'), bin=t.get('bin', False)))
                    else:
                        undecided.append(dict(obligation=oid, reason=r['message'], engine='native'))

        # ---- violations: known findings, Verus/Kani triage, replay ----
        violations, known_hits = [], []
        # group refuted by obligation
        grouped = {}
        replays_done = {}
        playbacks_left = [2]
        refuted.sort(key=lambda x: ({'kani': 0, 'native': 1}.get(x['engine'], 2), (kani_results.get(x.get('harness'), {}).get('time_s') or 0) if x['engine'] == 'kani' else 0))
        for x in refuted:
            grouped.setdefault(x['obligation'], []).append(x)
        for oid, items in grouped.items():
            unknown = []
            for x in items:
                k = match_known(known, prop, oid, x['check'])
                if k:
                    known_hits.append((k, x))
                else:
                    unknown.append(x)
            if not unknown:
                continue
            x0 = unknown[0]
            rep = dict(property=prop, obligation=oid, engine=x0['engine'], function=x0.get('function'),
                       contract=x0.get('contract'), failed_checks=[u['check'] for u in unknown],
                       verifier_output=[u.get('detail', '') for u in unknown if u.get('detail')],
                       repo_tree_sha256=repo_hash, tier=a.tier)
            suffix = ' no-failing-input-found'
            if x0['engine'] == 'native':
                suffix = ''
                rep['native_test'] = dict(file=x0['file'], test=x0.get('native_test'), bin=x0.get('bin', False), name=x0['harness'])
                rep['failing_input_and_message'] = x0.get('detail', '')
            if x0['engine'] == 'kani' and not a.no_replay and x0.get('replay') != 'shim':
                rep['note'] = 'harness postcondition mentions stub-recorded ghost state: no generic native replay; see the native stand-in violations of this run for a concrete failing input, if any'
            _slow = x0['engine'] == 'kani' and (kani_results.get(x0.get('harness'), {}).get('time_s') or 0) > 150 and playbacks_left[0] < 2
            if _slow:
                playbacks_left[0] = 0
            if x0['engine'] == 'kani' and not a.no_replay and x0.get('replay') == 'shim' and playbacks_left[0] <= 0:
                rep['note'] = 'concrete playback skipped (budget: two per run, one if the harness is slow); see the other replay files of this run'
            if x0['engine'] == 'kani' and not a.no_replay and x0.get('replay') == 'shim' and playbacks_left[0] > 0:
                playbacks_left[0] -= 1
                tests, tail = kani_playback(sc.repo, x0['harness_id'], 1800)
                fails = [t for t in tests if t['kind'] != 'cover']
                want = [t for t in fails if any(t['check'].strip('"') in fc for fc in rep['failed_checks'])]
                fails = want + [t for t in fails if t not in want]
                rep['counterexamples'] = fails[:3]
                rep['kani_playback_tail'] = tail if not fails else ''
                if fails and x0.get('replay') == 'shim':
                    nr = native_replay(x0['file'], x0['harness'], fails[0]['values'], x0.get('bin', False))
                    rep['native_replay'] = nr
                    rep['replay_harness'] = dict(file=x0['file'], harness=x0['harness'], bin=x0.get('bin', False), values=fails[0]['values'])
                    if any(v.get('outcome') == 'FAILED' for v in nr.values() if isinstance(v, dict)):
                        suffix = ''
                replays_done[x0['harness']] = suffix
            elif x0['engine'] == 'verus':
                pair = x0.get('pair')
                rep['paired_kani_harnesses'] = pair
                if pair:
                    ph = [h for h in registry.KANI if re.match(pair, h['name'])]
                    missing = [h for h in ph if h['name'] not in kani_results]
                    if missing and not a.no_replay:
                        extra = run_pairs(sc, missing)
                        kani_results.update(extra)
                    got = [(h, kani_results.get(h['name'])) for h in ph]
                    rep['paired_kani_results'] = {h['name']: (c and c['status']) for h, c in got}
                    bad = [(h, c) for h, c in got if c and c['status'] == 'refuted']
                    if bad:
                        h, c = bad[0]
                        rep['paired_failed_checks'] = c['failed'][:3]
                        rep['see_also'] = f"kani:{h['name']} (same contract on the real function; carries the counterexample)"
                        if replays_done.get(h['name']) == '':
                            suffix = ''
                        elif h['name'] not in replays_done and not a.no_replay:
                            tests, tail = kani_playback(sc.repo, c['harness_id'], 1800)
                            fails = [t for t in tests if t['kind'] != 'cover']
                            rep['counterexamples'] = fails[:3]
                            if fails and h.get('replay', 'shim') == 'shim':
                                nr = native_replay(h['file'], h['name'], fails[0]['values'], h.get('bin', False))
                                rep['native_replay'] = nr
                                rep['replay_harness'] = dict(file=h['file'], harness=h['name'], bin=h.get('bin', False), values=fails[0]['values'])
                                if any(v.get('outcome') == 'FAILED' for v in nr.values() if isinstance(v, dict)):
                                    suffix = ''
                    elif got and all(c and c['status'] == 'discharged' for h, c in got) and all(h['complete'] for h, c in got):
                        # the same contract holds on the real function for all inputs (complete Kani proof):
                        # the Verus failure is proof brittleness, not a violation.
                        undecided.append(dict(obligation=oid, engine='verus',
                                              reason='Verus proof no longer goes through but the complete Kani harness of the same contract passes: undecided, not a violation'))
                        continue
            rep['outcome'] = 'replayed-on-real-code' if suffix == '' else 'no-failing-input-found'
            h = hashlib.sha256((oid + json.dumps(rep.get('failed_checks'))).encode()).hexdigest()[:10]
            rpath = os.path.join(ROOT, 'replays', f"{prop}-{re.sub(r'[^A-Za-z0-9_]+', '_', oid)}-{h}.json")
            os.makedirs(os.path.dirname(rpath), exist_ok=True)
            json.dump(rep, open(rpath, 'w'), indent=1)
            violations.append((rpath, suffix, oid))

    # ---- evidence ----
    wall = time.time() - t_start
    complete_ok = [d for d in discharged if d.get('complete')]
    bounded_ok = [d for d in discharged if not d.get('complete')]
    n_checks_complete = sum(d.get('checks', 1) for d in complete_ok)
    n_refuted_complete = len({x['obligation'] for x in refuted if x.get('complete')})
    n_undecided = len({u['obligation'] for u in undecided})
    level = pinfo['level']
    cov = dict(
        functions_under_contract=functions_under_contract,
        obligations=n_checks_complete + sum(1 for x in refuted if x.get('complete')) + n_undecided,
        discharged=n_checks_complete,
        obligations_by_backend=dict(
            verus=dict(units=[dict(unit=r['unit'], status=r['status'], summary=r.get('verus_summary'), canaries=r['canaries'], wall_s=r['wall_s']) for r in verus_results],
                       discharged=sum(1 for d in complete_ok if d['engine'] == 'verus')),
            kani=dict(harnesses_complete_discharged=sum(1 for d in complete_ok if d['engine'] == 'kani'),
                      checks_complete_discharged=sum(d.get('checks', 0) for d in complete_ok if d['engine'] == 'kani'),
                      harnesses_bounded_discharged=len(bounded_ok),
                      checks_bounded_discharged=sum(d.get('checks', 0) for d in bounded_ok))),
        bounded_obligations=[dict(id=d['id'], bound=d.get('bound', ''), checks=d.get('checks'), contract=d.get('contract')) for d in bounded_ok],
        refuted_obligations=[dict(obligation=x['obligation'], check=x['check']) for x in refuted],
        undecided_obligations=undecided,
        known_findings_matched=[dict(id=k.get('id'), what=k.get('what'), obligation=x['obligation'], check=x['check']) for k, x in known_hits],
        checker_cmd=' ; '.join(checker_cmds),
        solver_time_s=round(solver_s, 2),
        obligation_times_s={d['id']: d.get('time_s') for d in discharged if d.get('time_s') is not None},
        trusted_base=registry.TRUSTED_BASE + pinfo.get('trusted', []),
        samples=([dict(obligation=d['id'], engine=d['engine'], contract=d.get('contract', d.get('kind')), complete=d.get('complete'), bound=d.get('bound', ''))
                  for d in (discharged[:6] + discharged[-2:])]
                 + [dict(obligation=d['id'], enumerated_input=x) for d in discharged for x in d.get('samples', [])][:12]) or [dict(note='no obligation discharged in this run')],
        evaluations=sum(d.get('checks', 1) for d in discharged),
        distinct_nontrivial=sum(d.get('nontrivial', 1) for d in discharged if d.get('engine') == 'verus' or d.get('covers', 0) > 0),
        rule='one case = one discharged obligation unit (a Verus function/lemma query, or a Kani harness = contract of one real function over its full symbolic domain); '
             'non-trivial = the harness reached its cover!() after the call under contract (non-vacuous) or is a Verus query that passed its ensures-false canary; for native bounded stand-ins the distinct enumerated inputs that the code under test ACCEPTED (counted by the test itself, 1 if it does not count); '
             'evaluations = individual CBMC property checks + Verus queries',
        exhaustive=False,
        explanation=pinfo.get('explanation', ''),
        repo_tree_sha256=repo_hash,
    )
    if level == 'model_checking':
        cov['states'] = max(1, sum(kani_results[h]['vccs'] for h in kani_results))
        cov['transitions'] = max(1, sum(kani_results[h]['checks_total'] for h in kani_results))
        cov['traces_validated_against_impl'] = len([v for v in violations if v[1] == '']) + len([d for d in discharged if d.get('engine') in ('kani', 'native')])
        cov['states_note'] = ('states = CBMC verification conditions generated over all harnesses; transitions = property checks evaluated; '
                              'there is no separate model: CBMC runs on the compiled real function and the native stand-ins execute it, so every discharged '
                              'harness / native test (plus every replayed counterexample) is counted once under traces_validated_against_impl')
    ev = dict(property_id=prop, tier=a.tier, seed=seed, level=level, coverage=cov, assumptions=assumptions,
              wall_s=round(wall, 1), violations=len(violations))
    if not a.only:
        os.makedirs(os.path.join(ROOT, 'evidence'), exist_ok=True)
        json.dump(ev, open(os.path.join(ROOT, 'evidence', f'{prop}.json'), 'w'), indent=1)

    # ---- report ----
    seen = set()
    for k, x in known_hits:
        key = k.get('id')
        if key in seen:
            continue
        seen.add(key)
        print(f"KNOWN-FINDING: property={prop} {k.get('what')} [{x['obligation']}]")
    if os.environ.get('VERIF_TIMES'):
        for d in sorted(discharged, key=lambda d: -(d.get('time_s') or 0))[:15]:
            log(f"  time {d.get('time_s')}s {d['id']}")
    for u in undecided:
        _r = str(u.get('reason'))
        log(f"UNDECIDED: {u.get('obligation')}: {_r[:300]}{' … ' + _r[-500:] if len(_r) > 800 else _r[300:]}")
    log(f"{prop} tier={a.tier}: discharged {len(complete_ok)} complete units ({n_checks_complete} checks), "
        f"{len(bounded_ok)} bounded units; refuted {len(grouped)}; undecided {n_undecided}; wall {wall:.0f}s")
    if violations:
        for rpath, suffix, oid in violations:
            print(f'VIOLATION property={prop} replay={rpath}{suffix}')
        sys.exit(1)
    if undecided:
        sys.exit(2)
    if not discharged and not known_hits:
        log('nothing was discharged')
        sys.exit(2)
    print(f'OK property={prop} tier={a.tier} obligations_discharged={n_checks_complete} bounded_units={len(bounded_ok)}')
    sys.exit(0)


def run_pairs(sc, hs):
    """Run Kani harnesses paired with a failed Verus obligation that were not part of this run."""
    files = sorted({h['file'] for h in hs} | {'src/lib.rs'} | ({'src/main.rs'} if any(h.get('bin') for h in hs) else set()))
    todo = [f for f in files if 'appended by /verif/check' not in open(os.path.join(sc.repo, f)).read()]
    if todo:
        inj, err = inject_kani_modules(sc.repo, todo)
        if inj is None:
            return {}
    kr = kani_run(sc.repo, [harness_path(h) for h in hs], min(NPROC, len(hs)), 1800, max(h.get('timeout', 900) for h in hs))
    return classify_kani(kr['json'], kr['stdout'], [h['name'] for h in hs])


def replay_file(path):
    rep = json.load(open(path))
    rh = rep.get('replay_harness')
    if rep.get('native_test'):
        nt = rep['native_test']
        t = next(x for x in registry.NATIVE if x['name'] == nt['name'])
        with Scratch('replay') as sc:
            inject_native_modules(sc.repo, {t['file']})
            r = native_run(sc.repo, [t], 1500)[t['name']]
        print(json.dumps(r, indent=1))
        return 1 if r['status'] == 'refuted' else 0
    print(json.dumps({k: rep.get(k) for k in ('property', 'obligation', 'function', 'contract', 'failed_checks', 'outcome')}, indent=1))
    if not rh:
        print('no concrete input recorded for this violation (no-failing-input-found); verifier output:')
        for v in rep.get('verifier_output', []):
            print(v)
        return 0
    nr = native_replay(rh['file'], rh['harness'], rh['values'], rh.get('bin', False))
    print(json.dumps(nr, indent=1))
    return 1 if any(v.get('outcome') == 'FAILED' for v in nr.values() if isinstance(v, dict)) else 0


if __name__ == '__main__':
    main()
