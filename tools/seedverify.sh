#!/bin/sh
# usage: tools/seedverify.sh <ID> [worktree]: collects patch+demo from the agent's worktree into /verif/seeded/<ID>/ and confirms,
# in a fresh scratch worktree of /repo: existing suite passes with the patch, demo fails with it and passes without it.
ID=$1; WT=${2:-/tmp/seed-$ID}; OUT=/verif/seeded/$ID
mkdir -p $OUT
git -C $WT diff -- src > $OUT/patch.diff
cp $WT/tests/seed_demo.rs $OUT/seed_demo.rs 2>/dev/null
[ -s $OUT/patch.diff ] || { echo "empty patch"; exit 1; }
V=/root/.verif-scratch/seedv-$ID
rm -rf $V; git -C /repo worktree add -q --detach $V HEAD
cp $OUT/seed_demo.rs $V/tests/seed_demo.rs
cd $V
echo "== without patch: demo"; cargo test --offline --test seed_demo 2>&1 | grep -E "^test result|error" | head -3
git apply $OUT/patch.diff || { echo "patch does not apply"; exit 1; }
echo "== with patch: existing suite"; cargo test --workspace --offline --no-fail-fast 2>&1 | grep -E "^test result|^error|FAILED" | head -12
cd /; git -C /repo worktree remove --force $V
