#!/usr/bin/env python3
"""Regenerates /verif/MANIFEST.json from contracts/registry.py (single source of truth)."""
import json, os, sys
ROOT = os.path.dirname(os.path.dirname(os.path.abspath(__file__)))
sys.path.insert(0, os.path.join(ROOT, 'contracts'))
import registry

BASELINE = "cd /repo && cargo test --workspace --no-fail-fast --offline"
checks = []
for pid in sorted(registry.PROPS):
    p = registry.PROPS[pid]
    checks.append(dict(
        property_id=pid,
        quick_cmd=f'./check {pid} --tier quick',
        thorough_cmd=f'./check {pid} --tier thorough',
        evidence_file=f'/verif/evidence/{pid}.json',
        replay_cmd_template=f'./check {pid} --replay {{path}}',
        engine='contracts',
        level_claimed=dict(category=p['level'], text=p['claim'], design_ref=p.get('design_ref', f'DESIGN.md section 5 {pid}')),
        level_note=p['note'],
        technique=p['technique'],
    ))
na = [dict(property_id=k, reason=v) for k, v in sorted(registry.NOT_APPLICABLE.items()) if k not in registry.PROPS]
m = dict(
    version=1,
    setup_cmd='sh tools/setup.sh',
    hooks=dict(guard='cfg(kani)', enable='none committed to /repo: each check appends `#[cfg(kani)] mod verif_kani {…}` harness modules (contracts/kani/<path>) to a scratch copy of /repo\'s working tree; cargo-kani sets cfg(kani) itself; Verus units are extracted mechanically from /repo by tools/extract.py',
               baseline_off_cmd=BASELINE, source_commits=[], add_only=True),
    engines=[dict(name='contracts', path='/verif/tools/driver.py', serves_properties=sorted(registry.PROPS),
                  kind_free_text='contract-based deductive verification: Verus (unbounded, SMT) on functions extracted from /repo each run + Kani/CBMC harnesses (callee contracts as stubs) on the real crate')],
    checks=checks,
    notes='Exit 0 = every obligation discharged (KNOWN-FINDING lines possible); 1 = VIOLATION; 2 = undecided/infrastructure (never an alarm). Fixed defects are listed in known_findings.json.',
    not_applicable=na,
)
json.dump(m, open(os.path.join(ROOT, 'MANIFEST.json'), 'w'), indent=1)
print('MANIFEST.json:', len(checks), 'checks,', len(na), 'not applicable')
