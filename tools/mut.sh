#!/bin/sh
# usage: tools/mut.sh <ID> <file-in-repo> <sed-expr> [extra check args]  — apply a one-off mutation to /repo, run the check, revert.
ID=$1; F=$2; E=$3; shift 3
cd /repo && git diff --quiet || { echo "/repo dirty"; exit 9; }
sed -i "$E" "/repo/$F"
git -C /repo diff --stat | tail -1
cd /verif && ./check "$ID" "$@" 2>&1 | grep -E "^(VIOLATION|OK|KNOWN|UNDECIDED)|tier=" | cut -c1-300
echo "exit=$?"
git -C /repo checkout -- .
