#!/bin/sh
# runs every claimed check's quick tier sequentially on the current /repo tree; summary in /root/.verif-scratch/runall.log
cd /verif
: > /root/.verif-scratch/runall.log
for id in ${@:-C01 C04 C06 C07 C08 C09 C10 C11 C12 C13 C14 C15 C16 C17 C18 C19 C20}; do
  s=$(date +%s)
  ./check $id --tier ${TIER:-quick} > /root/.verif-scratch/run_$id.out 2> /root/.verif-scratch/run_$id.err
  rc=$?
  e=$(date +%s)
  echo "$id rc=$rc wall=$((e-s))s $(tail -1 /root/.verif-scratch/run_$id.out | cut -c1-150)" >> /root/.verif-scratch/runall.log
done
echo DONE >> /root/.verif-scratch/runall.log
