#!/bin/sh
# usage: tools/seedrun.sh <seed-id> <check-id>...  — apply /verif/seeded/<seed-id>/patch.diff to /repo, run the checks, undo.
S=$1; shift
git -C /repo diff --quiet || { echo "/repo dirty"; exit 9; }
git -C /repo apply /verif/seeded/$S/patch.diff || exit 8
for id in "$@"; do
  s=$(date +%s)
  /verif/check $id --tier quick > /root/.verif-scratch/seed_${S}_$id.out 2> /root/.verif-scratch/seed_${S}_$id.err
  rc=$?
  e=$(date +%s)
  echo "seed=$S check=$id rc=$rc wall=$((e-s))s :: $(grep -E '^(VIOLATION|OK|KNOWN)' /root/.verif-scratch/seed_${S}_$id.out | head -4 | tr '\n' ' ' | cut -c1-700)" >> /root/.verif-scratch/seedrun.log
  mkdir -p /verif/seeded/$S/replays
  for f in $(grep -oE 'replay=[^ ]+' /root/.verif-scratch/seed_${S}_$id.out | cut -d= -f2 | head -3); do cp $f /verif/seeded/$S/replays/ 2>/dev/null; done
done
git -C /repo checkout -- .
