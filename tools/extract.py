#!/usr/bin/env python3
"""Mechanical extractor: builds a single-file Verus unit from a template and /repo sources.

A template is a Rust file (prelude: spec fns, lemmas, dependency interface
declarations) containing directive blocks

    //@@ fn <repo-relative-file>::<[ImplType::]name>
    //@@   rename <new_name>                      (optional)
    //@@   ret <binder>                           (name given to the return value)
    //@@   requires <expr>                        (any number; joined with ',')
    //@@   ensures <expr>
    //@@   rewrite <rule-id> /<regex>/ => <replacement>      (applied to the body text; must match >= 1 time)
    //@@   rewrite? <rule-id> /<regex>/ => <replacement>     (optional: may match 0 times)
    //@@   loop <ordinal> [<iter-binder>]          (followed by 'inv'/'dec' lines for that loop)
    //@@   inv <expr>
    //@@   dec <expr>
    //@@   prologue <ghost statements>             (inserted after the opening brace; any number of lines)
    //@@   after <regex> :: <ghost statements>     (inserted after the statement whose text starts with a match of regex)
    //@@   epilogue <ghost statements>             (the body is wrapped `let <binder> = { body }; <epilogue> <binder>`)
    //@@   loopbody <ordinal> <ghost statements>   (inserted at the top of the body of that loop)
    //@@ end

Everything the directive block produces other than the token sequence of the
function item taken from /repo is ghost (requires/ensures/invariant/proof
blocks) or a listed rewrite.  The extractor never edits, reorders or drops
executable tokens of the function except through the listed rewrite rules, and
every application is logged.

Exit status: 0 ok, 2 lost anchor / malformed template.
"""
import json
import re
import sys
import hashlib


class LostAnchor(Exception):
    pass


# --------------------------------------------------------------------------
# a small Rust lexer that only needs to know where code is, as opposed to
# comments / string literals / char literals / lifetimes

def code_mask(src):
    """Returns a list `m` with m[i] True iff src[i] is ordinary code (not inside
    a comment, string, raw string, byte string or char literal)."""
    n = len(src)
    m = [True] * n
    i = 0
    while i < n:
        c = src[i]
        if src.startswith('//', i):
            j = src.find('\n', i)
            j = n if j < 0 else j
            for k in range(i, j):
                m[k] = False
            i = j
        elif src.startswith('/*', i):
            depth = 1
            j = i + 2
            while j < n and depth:
                if src.startswith('/*', j):
                    depth += 1
                    j += 2
                elif src.startswith('*/', j):
                    depth -= 1
                    j += 2
                else:
                    j += 1
            for k in range(i, j):
                m[k] = False
            i = j
        elif c == '"' or (c in 'br' and re.match(r'(b?r#*"|b")', src[i:i + 8]) and (i == 0 or not (src[i - 1].isalnum() or src[i - 1] == '_'))):
            mm = re.match(r'b?r(#*)"', src[i:])
            if mm:
                hashes = mm.group(1)
                end = src.find('"' + hashes, i + len(mm.group(0)))
                j = n if end < 0 else end + 1 + len(hashes)
            else:
                j = i + (2 if c == 'b' else 1)
                while j < n and src[j] != '"':
                    j += 2 if src[j] == '\\' else 1
                j += 1
            for k in range(i, min(j, n)):
                m[k] = False
            i = j
        elif c == "'":
            # char literal or lifetime
            mm = re.match(r"'(\\.[^']*|[^\\'])'", src[i:])
            if mm:
                for k in range(i, i + len(mm.group(0))):
                    m[k] = False
                i += len(mm.group(0))
            else:
                i += 1
        elif c == 'b' and src.startswith("b'", i) and (i == 0 or not (src[i - 1].isalnum() or src[i - 1] == '_')):
            mm = re.match(r"b'(\\.[^']*|[^\\'])'", src[i:])
            if mm:
                for k in range(i, i + len(mm.group(0))):
                    m[k] = False
                i += len(mm.group(0))
            else:
                i += 1
        else:
            i += 1
    return m


def match_brace(src, mask, open_idx):
    assert src[open_idx] == '{'
    depth = 0
    for i in range(open_idx, len(src)):
        if not mask[i]:
            continue
        if src[i] == '{':
            depth += 1
        elif src[i] == '}':
            depth -= 1
            if depth == 0:
                return i
    raise LostAnchor('unbalanced braces')


def find_fn(src, qualname):
    """Locate `fn name` (optionally inside `impl ... Type ...`). Skips `mod tests`
    and any `mod verif_*`. Returns (item_start, sig_start(fn kw), body_open, body_close)."""
    mask = code_mask(src)
    parts = qualname.split('::')
    name = parts[-1]
    impl_ty = parts[-2] if len(parts) > 1 else None
    # block stack: list of (header_text, close_idx)
    results = []
    for mm in re.finditer(r'\bfn\s+' + re.escape(name) + r'\b', src):
        s = mm.start()
        if not mask[s]:
            continue
        # compute enclosing block headers
        headers = enclosing_headers(src, mask, s)
        if any(re.search(r'\bmod\s+(tests|verif_\w+)\b', h) for h in headers):
            continue
        if impl_ty is None:
            if any(re.search(r'\b(impl|trait)\b', h) for h in headers):
                continue
        else:
            if not headers:
                continue
            inner = [h for h in headers if re.search(r'\bimpl\b', h)]
            if not inner:
                continue
            h = inner[-1]
            # `impl<..> Type<..> {`  or `impl Trait for Type {`: the type is the last path segment before `{`/where
            hh = re.sub(r'\bwhere\b.*', '', h, flags=re.S)
            target = hh.split(' for ')[-1]
            if impl_ty.startswith('<'):
                # "<Trait for Type>" form: require both
                tr, ty = impl_ty[1:-1].split(' for ')
                if not (re.search(r'\b' + re.escape(tr) + r'\b', hh) and ' for ' in hh and re.search(r'\b' + re.escape(ty) + r'\b', target)):
                    continue
            else:
                if ' for ' in hh:
                    continue
                if not re.search(r'\b' + re.escape(impl_ty) + r'\b', target):
                    continue
        results.append(s)
    if len(results) != 1:
        raise LostAnchor(f'fn {qualname}: {len(results)} candidates')
    s = results[0]
    # body open: first '{' in code after s at paren depth 0
    depth = 0
    i = s
    while i < len(src):
        if mask[i]:
            ch = src[i]
            if ch in '([':
                depth += 1
            elif ch in ')]':
                depth -= 1
            elif ch == '{' and depth == 0:
                break
            elif ch == ';' and depth == 0:
                raise LostAnchor(f'fn {qualname} has no body')
        i += 1
    body_open = i
    body_close = match_brace(src, mask, body_open)
    # item start: include preceding attributes / doc comments / pub
    line_start = src.rfind('\n', 0, s) + 1
    return line_start, s, body_open, body_close


def enclosing_headers(src, mask, pos):
    """Headers (text between previous ';'/'}'/'{' and the '{') of the blocks enclosing pos."""
    stack = []
    last_boundary = 0
    i = 0
    while i < pos:
        if mask[i]:
            ch = src[i]
            if ch == '{':
                stack.append(src[last_boundary:i])
                last_boundary = i + 1
            elif ch == '}':
                if stack:
                    stack.pop()
                last_boundary = i + 1
            elif ch == ';':
                last_boundary = i + 1
        i += 1
    return stack


# --------------------------------------------------------------------------

def find_loops(body, mask):
    """Ordinal list of (kw_start, kw, brace_open) for for/while/loop in textual order."""
    out = []
    for mm in re.finditer(r'\b(for|while|loop)\b', body):
        s = mm.start()
        if not mask[s]:
            continue
        # `for` in `impl X for Y` or HRTB never occurs inside bodies we extract
        depth = 0
        i = mm.end()
        while i < len(body):
            if mask[i]:
                ch = body[i]
                if ch in '([':
                    depth += 1
                elif ch in ')]':
                    depth -= 1
                elif ch == '{' and depth == 0:
                    break
            i += 1
        if i >= len(body):
            raise LostAnchor('loop without body')
        out.append((s, mm.group(1), i))
    return out


def statement_end(body, mask, start):
    """Index just past the ';' that terminates the statement beginning at start (same nesting depth)."""
    depth = 0
    i = start
    while i < len(body):
        if mask[i]:
            ch = body[i]
            if ch in '([{':
                depth += 1
            elif ch in ')]}':
                depth -= 1
                if depth < 0:
                    raise LostAnchor('statement runs past its block')
            elif ch == ';' and depth == 0:
                return i + 1
        i += 1
    raise LostAnchor('unterminated statement')


def parse_directives(lines):
    d = dict(rename=None, ret='out', requires=[], ensures=[], rewrites=[], loops={}, prologue=[], after=[],
             epilogue=[], loopbody={}, nowrap=False, sigrewrite=[], bytelits=False)
    cur_loop = None
    for ln in lines:
        t = ln.strip()
        assert t.startswith('//@@')
        t = t[4:].strip()
        if not t:
            continue
        kw, _, rest = t.partition(' ')
        rest = rest.strip()
        if kw == 'rename':
            d['rename'] = rest
        elif kw == 'ret':
            d['ret'] = rest
        elif kw == 'nowrap':
            d['nowrap'] = True
        elif kw == 'bytelits':
            d['bytelits'] = True
        elif kw == 'requires':
            d['requires'].append(rest)
        elif kw == 'ensures':
            d['ensures'].append(rest)
        elif kw in ('rewrite', 'rewrite?', 'sigrewrite'):
            mm = re.match(r'(\S+)\s+/(.*)/\s+=>\s?(.*)$', rest)
            if not mm:
                raise LostAnchor(f'malformed rewrite directive: {rest}')
            item = dict(rule=mm.group(1), regex=mm.group(2), repl=mm.group(3), optional=(kw == 'rewrite?'))
            (d['sigrewrite'] if kw == 'sigrewrite' else d['rewrites']).append(item)
        elif kw == 'loop':
            p = rest.split()
            cur_loop = int(p[0])
            d['loops'][cur_loop] = dict(binder=p[1] if len(p) > 1 else None, inv=[], dec=[])
        elif kw == 'inv':
            d['loops'][cur_loop]['inv'].append(rest)
        elif kw == 'dec':
            d['loops'][cur_loop]['dec'].append(rest)
        elif kw == 'prologue':
            d['prologue'].append(rest)
        elif kw == 'epilogue':
            d['epilogue'].append(rest)
        elif kw == 'after':
            rx, _, ghost = rest.partition('::')
            d['after'].append((rx.strip(), ghost.strip()))
        elif kw == 'loopbody':
            o, _, ghost = rest.partition(' ')
            d['loopbody'].setdefault(int(o), []).append(ghost)
        else:
            raise LostAnchor(f'unknown directive {kw}')
    return d


def build_fn(repo, target, d, log):
    relfile, _, qual = target.partition('::')
    src = open(f'{repo}/{relfile}').read()
    item_start, fn_kw, body_open, body_close = find_fn(src, qual)
    sig = src[fn_kw:body_open].strip()
    body = src[body_open + 1:body_close]
    orig_text = src[fn_kw:body_close + 1]
    entry = dict(file=relfile, function=qual, sha256=hashlib.sha256(orig_text.encode()).hexdigest(),
                 lines=[src.count('\n', 0, fn_kw) + 1, src.count('\n', 0, body_close) + 1], rewrites=[])
    name = qual.split('::')[-1]

    # R8: every byte-string literal b"…" becomes the array literal of its decoded bytes (computed here from the
    # literal's own text, so a changed literal changes the verified text)
    if d['bytelits']:
        def conv(m):
            raw = m.group(1)
            out = []
            i = 0
            while i < len(raw):
                c = raw[i]
                if c == '\\':
                    e = raw[i + 1]
                    if e == 'x':
                        out.append(int(raw[i + 2:i + 4], 16))
                        i += 4
                        continue
                    table = {'n': 10, 'r': 13, 't': 9, '\\': 92, '0': 0, '"': 34, "'": 39}
                    if e not in table:
                        raise LostAnchor(f'{target}: unsupported escape \\{e} in byte string literal')
                    out.append(table[e])
                    i += 2
                    continue
                if ord(c) > 127:
                    raise LostAnchor(f'{target}: non-ASCII byte string literal')
                out.append(ord(c))
                i += 1
            return '&[' + ', '.join('0x%02xu8' % b for b in out) + ']'
        new, n = re.subn(r'b"((?:[^"\\]|\\.)*)"', conv, body)
        if n == 0:
            raise LostAnchor(f'{target}: bytelits requested but no byte string literal found')
        entry['rewrites'].append(dict(rule='R8', regex='b"…"', replacement='&[decoded bytes as u8 array literal]', applications=n))
        body = new

    # rewrites on the body text (code regions only are intended; regexes are written accordingly)
    for rw in d['rewrites']:
        new, n = re.subn(rw['regex'], rw['repl'].replace('\\n', '\n'), body, flags=re.S)
        if n == 0 and not rw['optional']:
            raise LostAnchor(f"{target}: rewrite {rw['rule']} /{rw['regex']}/ matched 0 times")
        if n:
            entry['rewrites'].append(dict(rule=rw['rule'], regex=rw['regex'], replacement=rw['repl'], applications=n))
        body = new
    for rw in d['sigrewrite']:
        new, n = re.subn(rw['regex'], rw['repl'], sig, flags=re.S)
        if n == 0:
            raise LostAnchor(f"{target}: sigrewrite {rw['rule']} matched 0 times")
        entry['rewrites'].append(dict(rule=rw['rule'], regex=rw['regex'], replacement=rw['repl'], applications=n, where='signature'))
        sig = new

    # ghost insertions keyed on statements
    for rx, ghost in d['after']:
        mask = code_mask(body)
        found = [m for m in re.finditer(rx, body) if mask[m.start()]]
        if len(found) != 1:
            raise LostAnchor(f'{target}: after-anchor /{rx}/ matched {len(found)} times')
        e = statement_end(body, mask, found[0].start())
        body = body[:e] + f'\n        proof {{ {ghost} }}' + body[e:]

    # loops
    mask = code_mask(body)
    loops = find_loops(body, mask)
    if sorted(d['loops'].keys()) != list(range(len(loops))):
        raise LostAnchor(f"{target}: {len(loops)} loops in body, contracts for {sorted(d['loops'].keys())}")
    for ordinal in reversed(range(len(loops))):
        s, kw, bo = loops[ordinal]
        spec = d['loops'][ordinal]
        clauses = ''
        if spec['inv']:
            clauses += '\n        invariant ' + ',\n            '.join(spec['inv']) + ','
        if spec['dec']:
            clauses += '\n        decreases ' + ', '.join(spec['dec']) + ','
        ghost_top = ''
        if ordinal in d['loopbody']:
            ghost_top = '\n        proof { ' + ' '.join(d['loopbody'][ordinal]) + ' }'
        header = body[s:bo]
        if kw == 'for' and spec['binder']:
            mm = re.match(r'for\s+(.+?)\s+in\s+(.*)$', header.strip(), flags=re.S)
            if not mm:
                raise LostAnchor(f'{target}: cannot parse for header {header!r}')
            header = f"for {mm.group(1)} in {spec['binder']}: {mm.group(2)} "
        body = body[:s] + header.rstrip() + clauses + '\n    {' + ghost_top + body[bo + 1:]

    # signature: rename, named return
    newname = d['rename'] or name
    sig2 = re.sub(r'\bfn\s+' + re.escape(name) + r'\b', 'fn ' + newname, sig, count=1)
    mm = re.search(r'->\s*(.+)$', sig2, flags=re.S)
    if mm:
        sig2 = sig2[:mm.start()] + f"-> ({d['ret']}: {mm.group(1).strip()})"
    spec_txt = ''
    if d['requires']:
        spec_txt += '\n    requires\n        ' + ',\n        '.join(d['requires']) + ','
    if d['ensures']:
        spec_txt += '\n    ensures\n        ' + ',\n        '.join(d['ensures']) + ','
    pro = ''
    if d['prologue']:
        pro = '\n    proof { ' + '\n        '.join(d['prologue']) + ' }'
    if d['nowrap'] or not mm:
        text = f"pub {sig2}{spec_txt}\n{{{pro}\n{body}\n}}\n"
    else:
        epi = ''
        if d['epilogue']:
            epi = '\n    proof { ' + '\n        '.join(d['epilogue']) + ' }'
        text = (f"pub {sig2}{spec_txt}\n{{{pro}\n    let {d['ret']} = {{{body}}};{epi}\n    {d['ret']}\n}}\n")
    entry['verified_name'] = newname
    log.append(entry)
    return text


def generate(template_path, repo, canary=False, canary_fn=None):
    lines = open(template_path).read().split('\n')
    out = []
    log = []
    i = 0
    while i < len(lines):
        ln = lines[i]
        if ln.strip().startswith('//@@ fn '):
            target = ln.strip()[len('//@@ fn '):].strip()
            j = i + 1
            block = []
            while j < len(lines) and lines[j].strip() != '//@@ end':
                if not lines[j].strip().startswith('//@@'):
                    raise LostAnchor(f'{template_path}:{j + 1}: non-directive line inside fn block')
                block.append(lines[j])
                j += 1
            if j >= len(lines):
                raise LostAnchor(f'{template_path}: unterminated fn block for {target}')
            d = parse_directives(block)
            if canary or (canary_fn is not None and canary_fn == target):
                d['ensures'] = d['ensures'] + ['false']
            out.append(f'// ---- extracted from /repo/{target} ----')
            out.append(build_fn(repo, target, d, log))
            i = j + 1
        else:
            out.append(ln)
            i += 1
    return '\n'.join(out), log


def main():
    import argparse
    ap = argparse.ArgumentParser()
    ap.add_argument('template')
    ap.add_argument('--repo', default='/repo')
    ap.add_argument('--out', required=True)
    ap.add_argument('--log')
    ap.add_argument('--canary', action='store_true')
    a = ap.parse_args()
    try:
        text, log = generate(a.template, a.repo, a.canary)
    except LostAnchor as e:
        print(f'LOST-ANCHOR: {e}', file=sys.stderr)
        sys.exit(2)
    open(a.out, 'w').write(text)
    if a.log:
        json.dump(log, open(a.log, 'w'), indent=1)


if __name__ == '__main__':
    main()
