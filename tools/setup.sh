#!/bin/sh
# Builds /verif/vendor/ethnum-kani from the cargo registry (offline): a copy of
# ethnum 1.5.0 whose only change is the body of error.rs::tfie() (see DESIGN.md §2.1).
set -eu
cd "$(dirname "$0")/.."
SRC=$(ls -d "$HOME"/.cargo/registry/src/*/ethnum-1.5.0 | head -n1)
[ -d "$SRC" ] || { echo "ethnum-1.5.0 not in cargo registry" >&2; exit 2; }
rm -rf vendor/ethnum-kani
mkdir -p vendor
cp -r "$SRC" vendor/ethnum-kani
rm -f vendor/ethnum-kani/.cargo-ok vendor/ethnum-kani/.cargo_vcs_info.json vendor/ethnum-kani/Cargo.toml.orig
python3 - <<'PY'
import re,sys
p='vendor/ethnum-kani/src/error.rs'
s=open(p).read()
old='''pub const fn tfie() -> TryFromIntError {
    unsafe { mem::transmute(()) }
}'''
new='''pub fn tfie() -> TryFromIntError {
    match u8::try_from(-1i8) {
        Err(e) => e,
        Ok(_) => unreachable!(),
    }
}'''
if old not in s:
    sys.exit("ethnum error.rs::tfie anchor lost")
open(p,'w').write(s.replace(old,new))
PY
diff -u "$SRC/src/error.rs" vendor/ethnum-kani/src/error.rs > vendor/ethnum-kani.diff || true
echo "vendor/ethnum-kani ready"
# anyhow for Kani: identical source, but the build script never enables std backtrace capture
# (cfg std_backtrace / error_generic_member_access). Backtraces are error-report decoration only; with them CBMC has
# to explore std::backtrace drop glue at every place an anyhow::Error may be dropped (see DESIGN.md section 2).
ASRC=$(ls -d "$HOME"/.cargo/registry/src/*/anyhow-1.0.97 | head -n1)
[ -d "$ASRC" ] || { echo "anyhow-1.0.97 not in cargo registry" >&2; exit 2; }
rm -rf vendor/anyhow-kani
cp -r "$ASRC" vendor/anyhow-kani
rm -f vendor/anyhow-kani/.cargo-ok vendor/anyhow-kani/.cargo_vcs_info.json vendor/anyhow-kani/Cargo.toml.orig
python3 - <<'PY'
import sys
p='vendor/anyhow-kani/build.rs'
s=open(p).read()
n=s.count('println!("cargo:rustc-cfg=std_backtrace");')+s.count('println!("cargo:rustc-cfg=error_generic_member_access");')
if n != 3:
    sys.exit("anyhow build.rs anchors lost (%d)" % n)
s=s.replace('println!("cargo:rustc-cfg=std_backtrace");','/* verif: backtrace capture disabled for Kani */')
s=s.replace('println!("cargo:rustc-cfg=error_generic_member_access");','/* verif: backtrace capture disabled for Kani */')
open(p,'w').write(s)
PY
diff -u "$ASRC/build.rs" vendor/anyhow-kani/build.rs > vendor/anyhow-kani.diff || true
echo "vendor/anyhow-kani ready"
