#!/bin/sh
# Builds /verif/vendor/ethnum-kani from the cargo registry (offline): a copy of
# ethnum 1.5.0 whose only change is the body of error.rs::tfie() (see DESIGN.md §2.1).
set -eu
cd "$(dirname "$0")/.."
SRC=$(ls -d "$HOME"/.cargo/registry/src/*/ethnum-1.5.0 | head -n1)
[ -d "$SRC" ] || { echo "ethnum-1.5.0 not in cargo registry" >&2; exit 2; }
rm -rf vendor/ethnum-kani
mkdir -p vendor
cp -r "$SRC" vendor/ethnum-kani
rm -f vendor/ethnum-kani/.cargo-ok vendor/ethnum-kani/.cargo_vcs_info.json vendor/ethnum-kani/Cargo.toml.orig
python3 - <<'PY'
import re,sys
p='vendor/ethnum-kani/src/error.rs'
s=open(p).read()
old='''pub const fn tfie() -> TryFromIntError {
    unsafe { mem::transmute(()) }
}'''
new='''pub fn tfie() -> TryFromIntError {
    match u8::try_from(-1i8) {
        Err(e) => e,
        Ok(_) => unreachable!(),
    }
}'''
if old not in s:
    sys.exit("ethnum error.rs::tfie anchor lost")
open(p,'w').write(s.replace(old,new))
PY
diff -u "$SRC/src/error.rs" vendor/ethnum-kani/src/error.rs > vendor/ethnum-kani.diff || true
echo "vendor/ethnum-kani ready"
