#!/bin/sh
# usage: tools/seedrun2.sh <seed-id> <check-id>...  — like seedrun.sh, but applies the patch to a scratch worktree of /repo
# (VERIF_REPO) instead of /repo itself, so that several seeds can be run side by side and /repo is never touched.
S=$1; shift
W=/root/.verif-scratch/seedwt-$S
rm -rf $W; git -C /repo worktree prune; git -C /repo worktree add -q --detach $W HEAD || exit 9
git -C $W apply /verif/seeded/$S/patch.diff || { git -C /repo worktree remove --force $W; exit 8; }
for id in "$@"; do
  s=$(date +%s)
  VERIF_REPO=$W /verif/check $id --tier quick > /root/.verif-scratch/seed_${S}_$id.out 2> /root/.verif-scratch/seed_${S}_$id.err
  rc=$?
  e=$(date +%s)
  echo "seed=$S check=$id rc=$rc wall=$((e-s))s :: $(grep -E '^(VIOLATION|OK|KNOWN)' /root/.verif-scratch/seed_${S}_$id.out | head -4 | tr '\n' ' ' | cut -c1-700)" >> /root/.verif-scratch/seedrun.log
  mkdir -p /verif/seeded/$S/replays
  for f in $(grep -oE 'replay=[^ ]+' /root/.verif-scratch/seed_${S}_$id.out | cut -d= -f2 | head -3); do cp $f /verif/seeded/$S/replays/ 2>/dev/null; done
done
git -C /repo worktree remove --force $W
