// Demonstrations of the genuine defects found on the pinned tree (f2251d1), through the public API only.
// Drop into /repo/tests/ of a scratch copy: every test FAILS on the pinned tree and PASSES after the fix: commits.
use hdwallet::{account::Signature, hdk::Path, mnemonic::Mnemonic, transaction::Transaction, typeddata::TypedData};
use std::panic::catch_unwind;

const W: &str = "abandon";

fn phrase(n: usize, last: &str) -> String {
    let mut v = vec![W; n - 1];
    v.push(last);
    v.join(" ")
}

#[test]
fn d1_word_counts_other_than_12_15_18_21_24_are_rejected_without_panic() {
    // C01/C12/C17: 13..=23 words that are not multiples of three
    for n in [13usize, 14, 16, 17, 19, 20, 22, 23] {
        let mut accepted = None;
        for last in ["abandon", "ability", "able", "about", "above", "absent", "absorb", "abstract", "absurd", "abuse", "access", "accident", "zoo", "wrong", "art", "cable"] {
            let p = phrase(n, last);
            let r = catch_unwind(|| Mnemonic::from_phrase(&p).is_ok());
            match r {
                Err(_) => panic!("{n} words: from_phrase panicked"),
                Ok(true) => accepted = Some(p),
                Ok(false) => {}
            }
        }
        // exhaustive search over the last word for n = 13 and 16 (these have a well-formed pseudo checksum)
        if n == 13 || n == 16 {
            let words = include_str!("../src/mnemonic/wordlist/english.txt");
            for last in words.lines() {
                let p = phrase(n, last.trim());
                if Mnemonic::from_phrase(&p).is_ok() {
                    accepted = Some(p);
                    break;
                }
            }
        }
        assert!(accepted.is_none(), "{n}-word phrase accepted: {accepted:?}");
    }
}

fn typed(ty: &str, value: &str) -> Result<TypedData, serde_json::Error> {
    serde_json::from_str::<TypedData>(&format!(
        r#"{{"types":{{"EIP712Domain":[{{"name":"name","type":"string"}}],"M":[{{"name":"x","type":"{ty}"}}]}},
            "primaryType":"M","domain":{{"name":"d"}},"message":{{"x":{value}}}}}"#
    ))
}

#[test]
fn d2_int_n_range_is_minus_2_pow_n_minus_1_to_2_pow_n_minus_1() {
    assert!(typed("int8", "127").is_ok());
    assert!(typed("int8", "-128").is_ok());
    assert!(typed("int8", "128").is_err(), "int8 <- 128 accepted");
    assert!(typed("int8", "200").is_err(), "int8 <- 200 accepted");
    assert!(typed("int8", "-129").is_err(), "int8 <- -129 accepted");
    assert!(typed("int8", "-200").is_err(), "int8 <- -200 accepted");
    assert!(typed("int256", "\"0x7fffffffffffffffffffffffffffffffffffffffffffffffffffffffffffffff\"").is_ok());
}

#[test]
fn d3_negative_numbers_are_not_unsigned_integers() {
    assert!(typed("uint8", "-1").is_err(), "uint8 <- -1 accepted");
    assert!(typed("uint256", "-1").is_err(), "uint256 <- -1 accepted (wraps to 2^256-1)");
    assert!(typed("uint256", "-1.0").is_err(), "uint256 <- -1.0 accepted");
    let tx = r#"{"nonce":-1,"gasPrice":0,"gas":21000,"value":0,"data":"0x","chainId":1}"#;
    assert!(serde_json::from_str::<Transaction>(tx).is_err(), "nonce -1 accepted (wraps to 2^256-1)");
    let tx = r#"{"nonce":0,"gasPrice":0,"gas":21000,"value":0,"data":"0x","chainId":-1}"#;
    assert!(serde_json::from_str::<Transaction>(tx).is_err(), "chainId -1 accepted");
}

#[test]
fn d4_path_index_2_pow_31_or_more_is_rejected() {
    assert!("m/2147483647'".parse::<Path>().is_ok());
    assert!("m/2147483648'".parse::<Path>().is_err(), "m/2147483648' accepted (aliases m/0')");
    assert!("m/2147483648".parse::<Path>().is_err(), "m/2147483648 accepted (aliases m/0')");
    assert!("m/4294967295".parse::<Path>().is_err());
}

#[test]
fn d6_printed_signatures_parse_back_and_bad_scalars_do_not_panic() {
    let text = format!("0x{}{}1b", "01".repeat(32), "02".repeat(32));
    let sig = text.parse::<Signature>().expect("0x-prefixed signature rejected");
    assert_eq!(sig.to_string(), text);
    assert_eq!(text[2..].parse::<Signature>().unwrap(), sig);
    let zero_r = format!("{}{}1b", "00".repeat(32), "02".repeat(32));
    let r = catch_unwind(|| zero_r.parse::<Signature>().is_err());
    assert!(matches!(r, Ok(true)), "r = 0 must be an ordinary error, got {r:?}");
    let big_s = format!("{}{}1c", "01".repeat(32), "ff".repeat(32));
    let r = catch_unwind(|| big_s.parse::<Signature>().is_err());
    assert!(matches!(r, Ok(true)), "s >= n must be an ordinary error, got {r:?}");
}

#[test]
fn d7_chain_id_for_which_v_does_not_fit_is_refused() {
    // 2^255: 35 + 2c wraps to 35 in release builds and panics in debug builds
    let tx = r#"{"nonce":0,"gasPrice":0,"gas":21000,"value":0,"data":"0x",
                 "chainId":"0x8000000000000000000000000000000000000000000000000000000000000000"}"#;
    let r = catch_unwind(|| match serde_json::from_str::<Transaction>(tx) {
        Err(_) => true,
        Ok(tx) => {
            let sig = format!("{}{}1b", "01".repeat(32), "02".repeat(32)).parse::<Signature>().unwrap();
            let _ = tx.encode(sig);
            false
        }
    });
    assert!(matches!(r, Ok(true)), "chain id 2^255 must be refused with an error, got {r:?}");
}

#[test]
fn d9_encode_type_lists_every_referenced_type_once_and_never_repeats_the_primary() {
    use ethdigest::Digest;
    let word = |v: u8| {
        let mut w = [0u8; 32];
        w[31] = v;
        w
    };
    let hash_struct = |ty: &str, words: &[[u8; 32]]| {
        let mut buf = Digest::of(ty).0.to_vec();
        for w in words {
            buf.extend_from_slice(w);
        }
        Digest::of(buf)
    };
    // (1) P(X x,A a,A b): X must not be dropped from the dependency closure
    let doc = r#"{"types":{"EIP712Domain":[{"name":"name","type":"string"}],
        "P":[{"name":"x","type":"X"},{"name":"a","type":"A"},{"name":"b","type":"A"}],
        "A":[{"name":"v","type":"uint8"}],"X":[{"name":"v","type":"uint8"}]},
        "primaryType":"P","domain":{"name":"d"},"message":{"x":{"v":1},"a":{"v":2},"b":{"v":3}}}"#;
    let expected = hash_struct(
        "P(X x,A a,A b)A(uint8 v)X(uint8 v)",
        &[
            hash_struct("X(uint8 v)", &[word(1)]).0,
            hash_struct("A(uint8 v)", &[word(2)]).0,
            hash_struct("A(uint8 v)", &[word(3)]).0,
        ],
    );
    assert_eq!(
        serde_json::from_str::<TypedData>(doc).unwrap().message_hash(),
        expected,
        "encodeType(P) is not P(X x,A a,A b)A(uint8 v)X(uint8 v)"
    );
    // (2) recursive type through an array: the primary type is never repeated
    let doc = r#"{"types":{"EIP712Domain":[{"name":"name","type":"string"}],
        "N":[{"name":"v","type":"uint8"},{"name":"kids","type":"N[]"}]},
        "primaryType":"N","domain":{"name":"d"},"message":{"v":1,"kids":[]}}"#;
    let expected = hash_struct("N(uint8 v,N[] kids)", &[word(1), Digest::of([0u8; 0]).0]);
    assert_eq!(
        serde_json::from_str::<TypedData>(doc).unwrap().message_hash(),
        expected,
        "encodeType(N) repeats the primary type"
    );
}
