// D11: non-canonical numbers in member type strings (uint08, bytes04, uint8[02], uint8[+2]) were parsed as the canonical
// atomic / array type and hashed under the canonical spelling instead of being refused as undefined struct types.
use hdwallet::typeddata::TypedData;
fn doc(ty: &str, v: &str) -> String {
    format!(r#"{{"types":{{"EIP712Domain":[{{"name":"name","type":"string"}}],"M":[{{"name":"x","type":"{ty}"}}]}},"primaryType":"M","domain":{{"name":"d"}},"message":{{"x":{v}}}}}"#)
}
#[test]
fn d11_non_canonical_type_strings_are_not_atomic_types() {
    assert!(serde_json::from_str::<TypedData>(&doc("uint8", "1")).is_ok());
    assert!(serde_json::from_str::<TypedData>(&doc("uint8[2]", "[1,2]")).is_ok());
    for (ty, v) in [("uint08", "1"), ("int008", "1"), ("bytes04", "\"0x01020304\""), ("uint8[02]", "[1,2]"), ("uint8[+2]", "[1,2]"), ("uint8[00]", "[]")] {
        assert!(serde_json::from_str::<TypedData>(&doc(ty, v)).is_err(), "member type {ty:?} is not an EIP-712 type and names no defined struct, but was accepted");
    }
}
