// D10: bytesN length compared after truncation to u32: bytes1 <- (2^32 + 1) bytes passes the check and panics in copy_from_slice.
use hdwallet::typeddata::TypedData;
#[test]
fn d10_bytes1_with_2_pow_32_plus_1_bytes() {
    let n: usize = (1usize << 32) + 1;
    let mut doc = String::with_capacity(2 * n + 400);
    doc.push_str(r#"{"types":{"EIP712Domain":[{"name":"name","type":"string"}],"M":[{"name":"x","type":"bytes1"}]},"primaryType":"M","domain":{"name":"d"},"message":{"x":"0x"#);
    for _ in 0..(2 * n / 64) { doc.push_str("0000000000000000000000000000000000000000000000000000000000000000"); }
    for _ in 0..(2 * n % 64) { doc.push('0'); }
    doc.push_str(r#""}}"#);
    let r = std::panic::catch_unwind(|| serde_json::from_str::<TypedData>(&doc).is_err());
    assert!(matches!(r, Ok(true)), "bytes1 <- 2^32+1 bytes must be an ordinary error, got {r:?}");
}
