#!/bin/sh
# CLI-level demonstrations (need the built binary): D5 account index >= 2^32 panics, D8 upper-case vanity digit.
# usage: defects_demo_bin.sh <path-to-repo-copy>; prints FAIL lines on the pinned tree, none after the fixes.
cd "$1" || exit 2
cargo build --offline -q 2>/dev/null || exit 2
B=target/debug/hdwallet
M="myth like bonus scare over problem client lizard pioneer submit female collect"
out=$($B address --mnemonic "$M" --account-index 4294967296 2>&1); rc=$?
[ $rc -eq 101 ] && echo "FAIL D5: --account-index 4294967296 panics (exit 101): $(echo "$out" | head -1)"
out=$($B new --vanity-prefix 0xA -j 0 2>&1); rc=$?
[ $rc -eq 101 ] && echo "FAIL D8: --vanity-prefix 0xA panics (exit 101): $(echo "$out" | head -1)"
out=$($B new -n 13 2>&1); rc=$?
[ $rc -eq 0 ] && echo "FAIL D1: new -n 13 prints a phrase: $out"
exit 0
